"""C01 - accepted values always satisfy the parameter's declared constraints.
One harness function per parameter family; symbolic: constraint configuration, candidate value (tagged union);
concrete (shard): parameter type, route, numeric sort."""
import datetime as dt
import math
import numbers
from decimal import Decimal
from fractions import Fraction

import param
from sx.api import assume, check, cover, untraced, pick, pickbool
from harness.common import assign, ROUTES

PROPERTY = 'C01'
LABELS = ['C01.iff', 'C01.exc', 'C01.readback', 'C01.readback_rejected', 'C01.color_lang']
EXPLANATION = ("Harnesses c01.num (Integer/Number), c01.rng (Range), c01.misc (Boolean, Tuple, NumericTuple, XYCoordinates, "
               "List, Selector, ListSelector, ClassSelector, Callable, Date, CalendarDate, DateRange, CalendarDateRange, "
               "String, Bytes, Color, Dict): the class is declared inside the path from a symbolic configuration, one "
               "assignment is made through the chosen route and accepted/rejected is compared with a docs-derived "
               "acceptance predicate. SMTK kernel K1 decides the language of the Color hex pattern.")
STUBS = ["String/Bytes/Color: the verdict of re.match is a fresh symbolic boolean inside SX (the module-level name `re` "
         "of param.parameterized / param.parameters is swapped for a shim during the path); the Color hex language is "
         "decided separately by the regex->z3 kernel",
         "deserialization route: JSON text abstract (identity dumps/loads), per-type deserialize hooks run"]
OUTSIDE = ["file-system and numpy/pandas parameter types", "user regex semantics", "generator functions as values",
           "more than one assignment per path", "mixed numeric sorts beyond int side in [-4,4]"]
ASSUMPTIONS = ["the declaration itself is valid (its default satisfies its own constraints)", "lo <= hi",
               "strings of length <= 2, list/tuple payloads from a fixed pool"]


class Obj:
    pass


OBJ = Obj()


def fn():
    pass


D1, D2, D3 = dt.date(2020, 1, 1), dt.date(2020, 6, 1), dt.date(2021, 1, 1)
T1, T2, T2n = dt.datetime(2020, 1, 1), dt.datetime(2020, 6, 1), dt.datetime(2020, 6, 1, 12)
NUMPOOL = [Fraction(1, 2), Decimal('0.5'), Fraction(-3, 2), 'a', b'a', [1], (1,), D1, fn, OBJ]


def _inb(v, has_lo, lo, inc_lo, has_hi, hi, inc_hi):
    if v != v:
        return not (has_lo or has_hi)        # NaN is never inside a hard bound
    ok = True
    if has_lo:
        ok = ok and ((v >= lo) if inc_lo else (v > lo))
    if has_hi:
        ok = ok and ((v <= hi) if inc_hi else (v < hi))
    return ok


def _readback(acc, target, before, p, v, info, name='x'):
    if callable(v) and acc:
        return             # dynamic value: reading it calls the generator (documented), nothing to compare
    if acc:
        got = getattr(target, name)
        check('C01.readback', (got is v) or (got == v) or (v != v and got != got), info)
    else:
        got = getattr(p, name)
        check('C01.readback_rejected', (got is before) or (got == before), info)


# ----------------------------------------------------------------------------------------------
# Integer / Number
# ----------------------------------------------------------------------------------------------
def _num_body(ptype, route, has_lo, has_hi, lo, hi, inc_lo, inc_hi, an, kind, v, b, pi, d):
    has_lo, has_hi, inc_lo, inc_hi, an = pickbool(has_lo), pickbool(has_hi), pickbool(inc_lo), pickbool(inc_hi), pickbool(an)
    if has_lo and has_hi:
        assume(lo <= hi)
    cls = param.Integer if ptype == 0 else param.Number
    bounds = (lo if has_lo else None, hi if has_hi else None)
    if kind == 0:
        val = v
    elif kind == 1:
        val = pickbool(b)
    elif kind == 2:
        val = None
    else:
        val = NUMPOOL[pick(pi, 0, len(NUMPOOL) - 1)]
    # acceptance predicate from the docs
    if val is None:
        ok = an
    elif callable(val):
        ok = True                              # dynamic value: documented, excluded from the bound clauses
    elif ptype == 0:
        ok = isinstance(val, int) and _inb(val, has_lo, lo, inc_lo, has_hi, hi, inc_hi)
    else:
        ok = isinstance(val, (numbers.Number, Decimal)) and _inb(val, has_lo, lo, inc_lo, has_hi, hi, inc_hi)
    info = {'ptype': ['Integer', 'Number'][ptype], 'route': route, 'kind': kind}
    if route == 5:
        try:
            cls(default=val, bounds=bounds, inclusive_bounds=(inc_lo, inc_hi), allow_None=an)
            acc, exc = True, None
        except Exception as e:
            acc, exc = False, type(e).__name__
        if val is None:
            ok = True                          # a None default switches allow_None on (documented)
        check('C01.iff', acc == ok, dict(info, acc=acc, ok=ok))
        check('C01.exc', exc in (None, 'ValueError', 'TypeError'), dict(info, exc=exc))
        return
    assume(_inb(d, has_lo, lo, inc_lo, has_hi, hi, inc_hi))     # the declaration itself is valid

    class P(param.Parameterized):
        x = cls(default=d, bounds=bounds, inclusive_bounds=(inc_lo, inc_hi), allow_None=an)
    if route == 4:
        assume(kind in (0, 1, 2))
    acc, exc, target, before, p = assign(P, route, val)
    check('C01.iff', acc == ok, dict(info, acc=acc, ok=ok, exc=exc))
    check('C01.exc', exc in (None, 'ValueError', 'TypeError'), dict(info, exc=exc))
    _readback(acc, target, before, p, val, info)


def num_ii(ptype: int, route: int, has_lo: bool, has_hi: bool, lo: int, hi: int, inc_lo: bool, inc_hi: bool, an: bool,
           kind: int, v: int, b: bool, pi: int, d: int) -> None:
    if kind == 3:
        lo, hi = 0, 1          # pool members meet concrete bounds (0 and 1 are boundary-shaped for 1/2, -3/2)
    _num_body(ptype, route, has_lo, has_hi, lo, hi, inc_lo, inc_hi, an, kind, v, b, pi, d)


def num_ff(ptype: int, route: int, has_lo: bool, has_hi: bool, lo: float, hi: float, inc_lo: bool, inc_hi: bool, an: bool,
           kind: int, v: float, b: bool, d: float) -> None:
    assume(lo == lo and hi == hi and d == d)
    _num_body(ptype, route, has_lo, has_hi, lo, hi, inc_lo, inc_hi, an, kind, v, b, 0, d)


def num_if(ptype: int, route: int, has_lo: bool, has_hi: bool, lo: int, hi: int, inc_lo: bool, inc_hi: bool, an: bool,
           kind: int, v: float, b: bool, d: int) -> None:
    # float value against small int bounds
    _num_body(ptype, route, has_lo, has_hi, pick(lo, -2, 2), pick(hi, -2, 2), inc_lo, inc_hi, an, kind, v, b, 0, pick(d, -2, 2))


def num_fi(ptype: int, route: int, has_lo: bool, has_hi: bool, lo: float, hi: float, inc_lo: bool, inc_hi: bool, an: bool,
           kind: int, v: int, b: bool, d: float) -> None:
    assume(lo == lo and hi == hi and d == d)
    _num_body(ptype, route, has_lo, has_hi, lo, hi, inc_lo, inc_hi, an, kind, pick(v, -2, 2), b, 0, d)


for _f in (num_ii, num_ff, num_if, num_fi):
    _f.ranges = lambda consts, _n=_f.__name__: dict(kind=(0, 3 if _n == 'num_ii' else 2), pi=(0, len(NUMPOOL) - 1),
                                                       **({'lo': (-2, 2), 'hi': (-2, 2), 'd': (-2, 2)} if _n == 'num_if' else {}),
                                                       **({'v': (-2, 2)} if _n == 'num_fi' else {}))


# ----------------------------------------------------------------------------------------------
# Range
# ----------------------------------------------------------------------------------------------
RNGPOOL = [(1,), (1, 2, 3), [0, 1], ('a', 1), 5, (None, 1), (Fraction(1, 2), 1)]


def _rng_body(route, has_lo, has_hi, lo, hi, inc_lo, inc_hi, an, step, kind, a, b, pi, d):
    has_lo, has_hi, inc_lo, inc_hi, an = pickbool(has_lo), pickbool(has_hi), pickbool(inc_lo), pickbool(inc_hi), pickbool(an)
    step = [None, 1, -1][pick(step, 0, 2)]
    if has_lo and has_hi:
        assume(lo <= hi)
    bounds = (lo if has_lo else None, hi if has_hi else None)
    pool = -1
    if kind == 0:
        val = (a, b)
    elif kind == 1:
        val = None
    else:
        pool = pick(pi, 0, len(RNGPOOL) - 1)
        val = RNGPOOL[pool]
    if val is None:
        ok = an
    else:
        ok = (isinstance(val, tuple) and len(val) == 2 and all(isinstance(x, (numbers.Number, Decimal)) for x in val)
              and all(_inb(x, has_lo, lo, inc_lo, has_hi, hi, inc_hi) for x in val))
        if ok and step is not None:
            ok = (val[0] <= val[1]) if step > 0 else (val[0] >= val[1])
    info = {'ptype': 'Range', 'route': route, 'kind': kind}
    if route == 5:
        try:
            param.Range(default=val, bounds=bounds, inclusive_bounds=(inc_lo, inc_hi), allow_None=an, step=step)
            acc, exc = True, None
        except Exception as e:
            acc, exc = False, type(e).__name__
        if val is None:
            ok = True
        check('C01.iff', acc == ok, dict(info, acc=acc, ok=ok))
        check('C01.exc', exc in (None, 'ValueError', 'TypeError'), dict(info, exc=exc, pool=pool))
        return
    assume(_inb(d, has_lo, lo, inc_lo, has_hi, hi, inc_hi))

    class P(param.Parameterized):
        x = param.Range(default=(d, d), bounds=bounds, inclusive_bounds=(inc_lo, inc_hi), allow_None=an, step=step)
    if route == 4:
        assume(kind in (0, 1))
        if kind == 0:
            val = [a, b]       # JSON has no tuples: the hook must restore one
    acc, exc, target, before, p = assign(P, route, val)
    check('C01.iff', acc == ok, dict(info, acc=acc, ok=ok, exc=exc))
    check('C01.exc', exc in (None, 'ValueError', 'TypeError'), dict(info, exc=exc))
    if acc and route == 4 and kind == 0:
        got = target.x
        check('C01.readback', isinstance(got, tuple) and got[0] is a and got[1] is b, info)
    else:
        _readback(acc, target, before, p, val, info)


def rng_ii(route: int, has_lo: bool, has_hi: bool, lo: int, hi: int, inc_lo: bool, inc_hi: bool, an: bool, step: int,
           kind: int, a: int, b: int, pi: int, d: int) -> None:
    if kind == 2:
        lo, hi = 0, 1
    _rng_body(route, has_lo, has_hi, lo, hi, inc_lo, inc_hi, an, step, kind, a, b, pi, d)


def rng_ff(route: int, has_lo: bool, has_hi: bool, lo: float, hi: float, inc_lo: bool, inc_hi: bool, an: bool, step: int,
           kind: int, a: float, b: float, d: float) -> None:
    assume(lo == lo and hi == hi and d == d)
    _rng_body(route, has_lo, has_hi, lo, hi, inc_lo, inc_hi, an, step, kind, a, b, 0, d)


rng_ii.ranges = lambda consts: dict(kind=(0, 2), step=(0, 2), pi=(0, len(RNGPOOL) - 1))
rng_ff.ranges = lambda consts: dict(kind=(0, 1), step=(0, 2))



# ----------------------------------------------------------------------------------------------
# Other parameter types (one symbolic candidate from a tagged union, configuration flags symbolic)
# ----------------------------------------------------------------------------------------------
POOL = [None, Fraction(1, 2), b'ab', [1, 2], [1, 'a'], [], (1, 2), (1, 'a'), (1, 2, 3), (), D1, D2, D3, T1, T2, T2n, fn, OBJ,
        Obj, int, {'k': 1}, 'red', '#fff', (D1, D2), (D2, D1), (T1, T2), (D1, T2n), (D1,), [D1, D2], (1.5, 2), True, 5, ['hi', 1], 'hi']
DATES = [D1, D2, D3, T1, T2, T2n]
MISC = ['Boolean', 'Tuple', 'NumericTuple', 'XYCoordinates', 'List', 'Selector', 'ListSelector', 'ClassSelector', 'Callable',
        'Date', 'CalendarDate', 'DateRange', 'CalendarDateRange', 'String', 'Bytes', 'Color', 'Dict']


class _ReShim:
    """Stub for the module-level name `re` inside param: match() returns the verdict chosen by the harness."""

    def __init__(self, real, verdict):
        self._real, self._verdict, self.calls = real, verdict, 0

    def match(self, pattern, string, flags=0):
        self.calls += 1
        if self._verdict:
            return self
        return None

    def __getattr__(self, n):
        return getattr(self._real, n)


def _isnum(x):
    return isinstance(x, (numbers.Number, Decimal))


def _todt(x):
    return dt.datetime(x.year, x.month, x.day) if (isinstance(x, dt.date) and not isinstance(x, dt.datetime)) else x


def misc(ptype: int, route: int, kind: int, an: bool, cfg_i: int, cfg_j: int, cfg_b: bool, rm: bool,
         i: int, f: float, s: str, b: bool, pi: int) -> None:
    an = pickbool(an)
    cfg_b = pickbool(cfg_b)
    if kind == 0:
        v = i
    elif kind == 1:
        v = f
    elif kind == 2:
        assume(len(s) <= 2)
        v = s
    elif kind == 3:
        v = pickbool(b)
    else:
        v = POOL[pick(pi, 0, len(POOL) - 1)]
    name = MISC[ptype]
    unspecified = False
    shim = None
    none_ok = (v is None and an)
    if name == 'Boolean':
        decl = lambda d: param.Boolean(default=d, allow_None=an); dflt = False
        ok = isinstance(v, bool) or none_ok
    elif name == 'Tuple':
        L = pick(cfg_i, 0, 3)
        decl = lambda d: param.Tuple(default=d, length=L, allow_None=an); dflt = (0,) * L
        ok = none_ok or (isinstance(v, tuple) and len(v) == L)
    elif name == 'NumericTuple':
        decl = lambda d: param.NumericTuple(default=d, length=2, allow_None=an); dflt = (0, 0)
        ok = none_ok or (isinstance(v, tuple) and len(v) == 2 and all(_isnum(x) for x in v))
    elif name == 'XYCoordinates':
        decl = lambda d: param.XYCoordinates(default=d, allow_None=an); dflt = (0.0, 0.0)
        ok = none_ok or (isinstance(v, tuple) and len(v) == 2 and all(_isnum(x) for x in v))
    elif name == 'List':
        lo = pick(cfg_i, 0, 2); hi = lo + pick(cfg_j, 0, 2)
        decl = lambda d: param.List(default=d, bounds=(lo, hi), item_type=int if cfg_b else None, allow_None=an); dflt = [0] * lo
        ok = none_ok or (isinstance(v, list) and lo <= len(v) <= hi and (not cfg_b or all(isinstance(x, int) for x in v)))
    elif name == 'Selector':
        objs = [1, 'a', (1, 2), 2]
        if cfg_b:       # objects declared as a {label: object} mapping: a label is not an allowed value
            decl = lambda d: param.Selector(default=d, objects=dict(zip(('x', 'hi', 't', 'b'), objs)), allow_None=an)
        else:
            decl = lambda d: param.Selector(default=d, objects=list(objs), allow_None=an)
        dflt = 1
        assume(not isinstance(v, (list, dict)) or kind != 4 or True)
        ok = none_ok or any(v == o for o in objs)
    elif name == 'ListSelector':
        objs = [1, 'a', 2]
        if cfg_b:
            decl = lambda d: param.ListSelector(default=d, objects=dict(zip(('x', 'hi', 'b'), objs)), allow_None=an)
        else:
            decl = lambda d: param.ListSelector(default=d, objects=list(objs), allow_None=an)
        dflt = [1]
        ok = none_ok or (isinstance(v, list) and all(any(x == o for o in objs) for x in v))
    elif name == 'ClassSelector':
        ci = pick(cfg_i, 0, 3)
        cls = [int, str, (int, str), Obj][ci]
        if cfg_b:      # is_instance=False: values are classes
            decl = lambda d: param.ClassSelector(class_=cls, default=d, is_instance=False, allow_None=an); dflt = [int, str, int, Obj][ci]
            ok = none_ok or (isinstance(v, type) and issubclass(v, cls))
        else:
            decl = lambda d: param.ClassSelector(class_=cls, default=d, allow_None=an); dflt = [0, '', 0, OBJ][ci]
            ok = none_ok or isinstance(v, cls)
    elif name == 'Callable':
        decl = lambda d: param.Callable(default=d, allow_None=an); dflt = fn
        ok = none_ok or callable(v)
    elif name in ('Date', 'CalendarDate'):
        cal = name == 'CalendarDate'
        lo, hi = [(D1, D2), (D2, D2), (T1, T2), (D1, T2n)][pick(cfg_i, 0, 1 if cal else 3)]
        P_ = param.CalendarDate if cal else param.Date
        decl = lambda d: P_(default=d, bounds=(lo, hi), allow_None=an); dflt = lo
        isdate = isinstance(v, dt.date)
        typ_ok = (isdate and not isinstance(v, dt.datetime)) if cal else isdate
        ok = none_ok or (typ_ok and _todt(lo) <= _todt(v) <= _todt(hi))
    elif name in ('DateRange', 'CalendarDateRange'):
        cal = name == 'CalendarDateRange'
        lo, hi = (D1, D3)
        P_ = param.CalendarDateRange if cal else param.DateRange
        if cfg_b:
            decl = lambda d: P_(default=d, bounds=(lo, hi), allow_None=an)
        else:
            decl = lambda d: P_(default=d, allow_None=an)
        dflt = (D1, D2)
        good = isinstance(v, tuple) and len(v) == 2 and all(isinstance(x, dt.date) for x in v)
        if good and cal and any(isinstance(x, dt.datetime) for x in v):
            unspecified = True      # CalendarDateRange's docs do not say whether datetimes are dates here
        if good and len({isinstance(x, dt.datetime) for x in v}) == 2:
            unspecified = True      # a date mixed with a datetime: not comparable in Python, docs silent
        ok = none_ok or (good and _todt(v[0]) <= _todt(v[1]) and (not cfg_b or all(_todt(lo) <= _todt(x) <= _todt(hi) for x in v)))
    elif name in ('String', 'Bytes'):
        typ = str if name == 'String' else bytes
        P_ = param.String if name == 'String' else param.Bytes
        rx = ('^a' if name == 'String' else b'^a') if cfg_b else None
        decl = lambda d: P_(default=d, regex=rx, allow_None=an); dflt = 'a' if name == 'String' else b'a'
        ok = none_ok or (isinstance(v, typ) and (rx is None or pickbool(rm)))
        shim = True
    elif name == 'Color':
        decl = lambda d: param.Color(default=d, allow_named=cfg_b, allow_None=an); dflt = '#000000'
        if none_ok:
            ok = True
        elif not isinstance(v, str):
            ok = False
        else:
            ok = pickbool(rm) or (cfg_b and v.lower() in param.Color._named_colors)
        shim = True
    else:
        decl = lambda d: param.Dict(default=d, allow_None=an); dflt = {}
        ok = none_ok or isinstance(v, dict)
    info = {'ptype': name, 'route': route, 'kind': kind}
    import param.parameterized as _pp
    import param.parameters as _ps
    if shim:
        with untraced():
            import re as _re
            sh = _ReShim(_re, True)      # the declaration's own default matches
            _pp.re = sh; _ps.re = sh
    try:
        if route == 5:
            assume(name in ('Boolean', 'List', 'ClassSelector', 'Callable', 'Date', 'CalendarDate',
                            'String', 'Bytes', 'Color', 'Dict'))
            if shim:
                sh._verdict = rm
            try:
                decl(v)
                acc, exc = True, None
            except Exception as e:
                acc, exc = False, type(e).__name__
            if v is None:
                ok = True
            if not unspecified:
                check('C01.iff', acc == ok, dict(info, acc=acc, ok=ok, exc=exc))
            check('C01.exc', exc in (None, 'ValueError', 'TypeError'), dict(info, exc=exc))
            return

        class P(param.Parameterized):
            x = decl(dflt)
        if shim:
            sh._verdict = rm
        acc, exc, target, before, p = assign(P, route, v)
        if not unspecified:
            check('C01.iff', acc == ok, dict(info, acc=acc, ok=ok, exc=exc))
        check('C01.exc', exc in (None, 'ValueError', 'TypeError'), dict(info, exc=exc))
        if shim:
            sh._verdict = True
        _readback(acc, target, before, p, v, info)
    finally:
        if shim:
            with untraced():
                _pp.re = _re; _ps.re = _re


misc.ranges = lambda consts: dict(cfg_i=(0, 5), cfg_j=(0, 5), pi=(0, len(POOL) - 1))


# ----------------------------------------------------------------------------------------------
# Two-step: the constraints in force at the moment of the assignment are the ones applied
# ----------------------------------------------------------------------------------------------
def again(route: int, v: int, lo: int, hi: int, lo2: int, hi2: int, same: bool, mut: int) -> None:
    """Assign v (valid), tighten the instance Parameter's bounds / mutate the stored list in place, then assign the
    identical object (or an equal fresh one) again: accepted iff it satisfies the constraints now in force."""
    assume(lo <= v <= hi and lo2 <= hi2)
    same = pickbool(same)

    class P(param.Parameterized):
        x = param.Integer(default=v, bounds=(lo, hi))
        l = param.List(default=[1], item_type=int, bounds=(0, 2))
    p = P()
    p.x = v
    p.param.x.bounds = (lo2, hi2)
    info = {'ptype': 'Integer', 'route': route, 'same': same, 'two_step': True}
    try:
        if route == 0:
            p.x = v
        else:
            p.param.update(x=v)
        acc = True
    except ValueError:
        acc = False
    check('C01.iff', acc == (lo2 <= v <= hi2), dict(info, acc=acc))
    lst = [1]
    p.l = lst
    m = pick(mut, 0, 2)
    if m == 1:
        lst.append('s')            # breaks item_type
    elif m == 2:
        lst.extend([2, 3])         # breaks the length bound
    val = lst if same else list(lst)
    try:
        if route == 0:
            p.l = val
        else:
            p.param.update(l=val)
        acc = True
    except (ValueError, TypeError):
        acc = False
    check('C01.iff', acc == (m == 0), dict(info, ptype='List', acc=acc, mut=m))


def nodefault(ptype: int, lo: int, hi: int, inc_lo: bool, inc_hi: bool) -> None:
    """A declaration that gives no default: the type's own default must satisfy the declared constraints, else it is rejected."""
    assume(lo <= hi)
    inc_lo, inc_hi = pickbool(inc_lo), pickbool(inc_hi)
    ptype = pick(ptype, 0, 3)
    if ptype == 1:
        lo, hi = pick(lo, -3, 3), pick(hi, -3, 3)     # Number's type default is the float 0.0: int bounds are realised (no int/float SMT mixing)
    info = {'ptype': ['Integer', 'Number', 'List', 'Range'][ptype], 'route': 5, 'no_default': True}
    if ptype in (0, 1):
        ok = _inb(0, True, lo, inc_lo, True, hi, inc_hi)
    elif ptype == 2:
        assume(lo >= 0)
        ok = lo <= 0
    else:
        ok = True          # the default of Range is None
    try:
        if ptype == 0:
            param.Integer(bounds=(lo, hi), inclusive_bounds=(inc_lo, inc_hi))
        elif ptype == 1:
            param.Number(bounds=(lo, hi), inclusive_bounds=(inc_lo, inc_hi))
        elif ptype == 2:
            param.List(bounds=(lo, hi))
        else:
            param.Range(bounds=(lo, hi))
        acc, exc = True, None
    except Exception as e:      # noqa
        acc, exc = False, type(e).__name__
    check('C01.iff', acc == ok, dict(info, acc=acc, ok=ok, exc=exc))
    check('C01.exc', exc in (None, 'ValueError', 'TypeError'), dict(info, exc=exc))


nodefault.ranges = lambda consts: dict(ptype=(0, 3), lo=(-3, 3), hi=(-3, 3))


def nested(how: int, w: int, lo: int, hi: int) -> None:
    """An assignment made from inside a watcher callback - while a plain set, a param.update, a param.trigger or a batch flush is
    dispatching - is validated like any other: accepted iff it satisfies the constraints."""
    from param.parameterized import batch_call_watchers
    assume(lo <= hi)
    how = pick(how, 0, 3)

    class P(param.Parameterized):
        x = param.Integer(default=0)
        y = param.Integer(default=None, bounds=(lo, hi), allow_None=True)
    p = P()
    seen = []

    def cb(event):
        try:
            p.y = w
            seen.append('accepted')
        except ValueError:
            seen.append('rejected')
    p.param.watch(cb, 'x', onlychanged=False)
    if how == 0:
        p.x = 1
    elif how == 1:
        p.param.update(x=1)
    elif how == 2:
        p.param.trigger('x')
    else:
        with batch_call_watchers(p):
            p.x = 1
    info = {'ptype': 'Integer', 'nested_in': ['set', 'update', 'trigger', 'batch flush'][how], 'two_step': True}
    check('C01.iff', seen == ['accepted' if lo <= w <= hi else 'rejected'], dict(info, seen=list(seen)))
    check('C01.readback', p.y == (w if lo <= w <= hi else None), info)


nested.ranges = lambda consts: dict(how=(0, 3))
again.ranges = lambda consts: dict(mut=(0, 2))


def shards(tier):
    out = []
    q = tier == 'quick'
    routes = (0, 5) if q else (0, 1, 2, 3, 4, 5)
    B = 60 if q else 600
    for ptype in (0, 1):
        for route in routes:
            for f in (('num_ii', 'num_ff') if q else ('num_ii', 'num_ff', 'num_if', 'num_fi')):
                if ptype == 0 and f in ('num_ff', 'num_fi'):
                    continue      # an Integer cannot be declared with a float default; float *values* meet it in num_if
                for kind in range(4 if f == 'num_ii' else 3):
                    if route == 4 and kind == 3:
                        continue
                    if f in ('num_ff', 'num_fi') and kind == 1:
                        continue      # CrossHair cannot compare a concrete bool with a precise-FP symbolic (sort mismatch); bool values meet int bounds only
                    for hl in (False, True):
                        for hh in (False, True):
                            out.append(dict(name='%s_%s_r%d_k%d_%d%d' % (['Integer', 'Number'][ptype], f, route, kind, hl, hh),
                                            module='harness.c01', fn=f,
                                            consts=dict(ptype=ptype, route=route, kind=kind, has_lo=hl, has_hi=hh), budget_s=B))
    for route in routes:
        for f in ('rng_ii', 'rng_ff'):
            for kind in range(3 if f == 'rng_ii' else 2):
                if route == 4 and kind == 2:
                    continue
                for hl in (False, True):
                    for hh in (False, True):
                        out.append(dict(name='Range_%s_r%d_k%d_%d%d' % (f, route, kind, hl, hh), module='harness.c01', fn=f,
                                        consts=dict(route=route, kind=kind, has_lo=hl, has_hi=hh), budget_s=B))
    for ptype in range(len(MISC)):
        for route in ((0, 3, 5) if q else (0, 1, 2, 3, 5)):
            for kind in range(5):
                out.append(dict(name='%s_r%d_k%d' % (MISC[ptype], route, kind), module='harness.c01', fn='misc',
                                consts=dict(ptype=ptype, route=route, kind=kind), budget_s=B))
    for ptype in range(4):
        out.append(dict(name='nodefault_%d' % ptype, module='harness.c01', fn='nodefault', consts=dict(ptype=ptype), budget_s=B))
    for how in range(4):
        out.append(dict(name='nested_%d' % how, module='harness.c01', fn='nested', consts=dict(how=how), budget_s=B))
    for route in (0, 1):
        out.append(dict(name='again_r%d' % route, module='harness.c01', fn='again', consts=dict(route=route), budget_s=B))
    return out


def bounds(tier):
    return dict(assignments_per_path=1, routes=[ROUTES[r] for r in ((0, 5) if tier == 'quick' else range(6))],
                numeric='int bounds with int values over unbounded Z; float bounds with float values over all IEEE doubles; '
                        'cross-sort with the int side in [-2,2] (thorough)', pools=dict(num=len(NUMPOOL), rng=len(RNGPOOL)))


def extra(tier):
    from smtk import color
    return [color.run(8 if tier == 'quick' else 10)]
