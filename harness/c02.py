"""C02 - a rejected assignment has no observable effect.
Symbolic: prior history (<= 2 successful ops), kind/route/value of the rejected attempt, source values, reference kind."""
import param
from sx.api import assume, check, cover, untraced, pick, pickbool

PROPERTY = 'C02'
LABELS = ['C02.override_after_rejected_sync', 'C02.raises', 'C02.values', 'C02.refs', 'C02.watchers', 'C02.no_event', 'C02.old_link_alive', 'C02.new_link_absent',
          'C02.dispatch_state']
SHADOWED_BY_KNOWN = {}
EXPLANATION = ("Harness c02.prog: a target with an allow_refs bounded Integer x, a plain y, a constant c and a readonly r; after a "
               "symbolic prefix of successful operations (plain set, link x to a source Parameter / bind / rx, update) one rejected "
               "attempt of symbolic kind (invalid plain value, reference whose current value is invalid, constant or readonly "
               "violation, invalid class-level value) through a symbolic route (instance, single-key update, class); a deep snapshot "
               "(values, refs, every object's watcher tables, batching flags) and the event log must be unchanged, and afterwards "
               "the old source still drives x while the attempted one does not.")
STUBS = []
OUTSIDE = ["multi-key update with a later invalid key (C05's subject)", "async references", "prefixes longer than 2"]
ASSUMPTIONS = ["bounds of x are (0, 10); valid values symbolic in [0,10], the rejected value symbolic outside"]


class S(param.Parameterized):
    v = param.Integer(default=1)


class T(param.Parameterized):
    x = param.Integer(default=1, bounds=(0, 10), allow_refs=True)
    y = param.Integer(default=1, bounds=(0, 10))
    c = param.Integer(default=1, constant=True)
    r = param.Integer(default=1, readonly=True)
    e = param.Event()
    cr = param.Integer(default=1, constant=True, allow_refs=True)
    cs = param.Selector(objects=[1, 2], default=1, check_on_set=False, constant=True)


def _wtable(o):
    return {k: {w: [id(x) for x in l] for w, l in d.items()} for k, d in o.param.watchers.items()}


def _snapshot(t, srcs):
    pv = t._param__private
    return dict(values=[getattr(t, k) for k in ('x', 'y', 'c', 'r', 'cr')],
                refs={k: id(v) for k, v in pv.refs.items()},
                wt=_wtable(t), swt=[_wtable(s) for s in srcs],
                cls=[getattr(T, k) for k in ('x', 'y', 'c', 'r')],
                state=(t.param._BATCH_WATCH, len(t.param._events), t.param._TRIGGER, len(t.param._state_watchers)))


def _ref(s, rk):
    if rk == 0:
        return s.param.v
    if rk == 1:
        return param.bind(lambda v: v, s.param.v)
    return s.param.v.rx() + 0


def prog(k: int, p1: int, pv1: int, p2: int, pv2: int, rk: int, kind: int, route: int, bad: int, s0v: int, after0: int,
         ctx: int = 0) -> None:
    assume(bad < 0 or bad > 10)
    with untraced():
        s0, s1 = S(), S()
        t = T()
        clsx = T.x
    rk = pick(rk, 0, 2)
    s0.v = s0v
    log = []
    t.param.watch(lambda *e: log.append([(x.name, x.new) for x in e]), ['x', 'y', 'c', 'r', 'e', 'cr', 'cs'], onlychanged=False)
    t.param.watch(lambda *e: log.append([('objects', x.name) for x in e]), ['cs'], what='objects', onlychanged=False)
    if ctx == 1:
        # the whole history, the rejected attempt and the probes run inside an open batch: the events queued by the
        # history must stay queued (no watcher runs, the queue length is part of the snapshot)
        with param.parameterized.batch_call_watchers(t):
            _body(t, s0, s1, log, clsx, k, p1, pv1, p2, pv2, rk, kind, route, bad, after0, ctx)
    else:
        _body(t, s0, s1, log, clsx, k, p1, pv1, p2, pv2, rk, kind, route, bad, after0, ctx)


def _body(t, s0, s1, log, clsx, k, p1, pv1, p2, pv2, rk, kind, route, bad, after0, ctx):
    linked = None
    try:
        for (po, pvv) in ((p1, pv1), (p2, pv2))[:k]:
            po = pick(po, 0, 3)
            cover('C02.prefix.%d' % po)
            if po == 1:
                t.x = pvv
                linked = None
            elif po == 2:
                t.x = _ref(s0, rk)
                linked = s0
            elif po == 3:
                t.param.update(y=pvv)
        kind = pick(kind, 0, 6)
        route = pick(route, 0, 3)
        cover('C02.kind.%d' % kind)
        s1.v = bad if kind == 1 else 5
        newref = _ref(s1, rk) if kind in (1, 5) else None     # built before the snapshot: an rx registers its own watchers on the source
        snap = _snapshot(t, (s0, s1))
        nlog = len(log)
        if kind == 0:
            val, name = bad, 'x'              # invalid plain value
        elif kind == 1:
            val, name = newref, 'x'           # reference whose current value is invalid
        elif kind == 2:
            val, name = 5, 'c'                # constant violation
        elif kind == 3:
            val, name = 5, 'r'                # readonly violation
        elif kind == 6:
            val, name = 5, 'cs'               # a new object for a constant Selector that would adopt it (check_on_set=False)
        elif kind == 5:
            val, name = newref, 'cr'          # reference (current value valid, different from the held one) handed to a constant
        else:
            val, name = bad, 'y'              # invalid plain value on a parameter without reference support
        try:
            if route == 0:
                setattr(t, name, val)
            elif route == 1:
                t.param.update({name: val})
            elif route == 3:
                # the rejected key comes first, an Event key that is never reached follows
                t.param.update({name: val, 'e': True})
            else:
                assume(kind in (0, 3, 4))     # class route: invalid plain value / readonly
                setattr(T, name, val)
            raised = False
        except (ValueError, TypeError):
            raised = True
        info = {'kind': kind, 'route': route, 'had_link': linked is not None, 'ref_kind': rk, 'ctx': ctx}
        check('C02.raises', raised, info)
        after = _snapshot(t, (s0, s1))
        check('C02.values', after['values'] == snap['values'] and after['cls'] == snap['cls'], info)
        check('C02.refs', after['refs'] == snap['refs'], info)
        check('C02.watchers', after['wt'] == snap['wt'] and after['swt'] == snap['swt'], info)
        check('C02.dispatch_state', after['state'] == snap['state'], info)
        check('C02.no_event', len(log) == nlog, info)
        if route == 3 and ctx == 0:
            # the Event key the rejected update never reached still is an Event: it pulses and falls back to False
            n = len(log)
            t.e = True
            mid = t.e
            t.e = True
            check('C02.dispatch_state', mid is False and t.e is False and len(log) == n + 2, dict(info, event_after_rejected_update=True, pulses=len(log) - n))
        # later propagation follows the old link only
        s0.v = after0
        if linked is s0:
            check('C02.old_link_alive', t.x == after0, info)
        if kind in (1, 5):
            before = (t.x, t.cr)
            s1.v = 7
            check('C02.new_link_absent', (t.x, t.cr) == before, info)
    finally:
        with untraced():
            T.x = clsx


def resync(rk: int, bad: int, w: int) -> None:
    """A source update whose propagation to the linked target is rejected (the source assignment raises) must not
    change how later assignments to the target are treated: a plain value still ends the link."""
    assume((bad < 0 or bad > 10) and 0 <= w <= 10)
    rk = pick(rk, 0, 2)
    with untraced():
        s0 = S()
        t = T()
    t.x = _ref(s0, rk)
    before = t.x
    try:
        s0.v = bad
        raised = False
    except (ValueError, TypeError):
        raised = True
    info = {'resync': True, 'ref_kind': rk}
    check('C02.raises', raised, info)
    check('C02.values', t.x == before, info)
    t.x = 3
    try:
        s0.v = w
    except (ValueError, TypeError):
        pass
    check('C02.override_after_rejected_sync', t.x == 3, info)


resync.ranges = lambda consts: dict(rk=(0, 2))


class Counter:
    """stateful value generator 1, 2, 3, ..."""

    def __init__(self):
        self.n = 0

    def __call__(self):
        self.n += 1
        return self.n


def _slots(pobj):
    out = []
    for sl in sorted(type(pobj)._all_slots_):
        if sl in ('watchers', 'owner'):
            continue
        v = getattr(pobj, sl, None)
        out.append((sl, v if isinstance(v, (int, float, str, bool, tuple, type(None))) else id(v)))
    return out


def dyn(level: int, tgt: int, valk: int, tm: int, bad: int) -> None:
    """Rejected assignments around dynamic (callable) values of Number parameters."""
    assume(bad < 0 or bad > 10)
    level = pick(level, 0, 1)
    tgt = pick(tgt, 0, 2)
    valk = pick(valk, 0, 2)
    tm = pick(tm, 0, 2)
    with untraced():
        gen, gen2 = Counter(), Counter()

        class Q(param.Parameterized):
            x = param.Number(default=gen if level == 1 else 0)
            c = param.Number(default=7, constant=True)
            r = param.Number(default=7, readonly=True)
            y = param.Number(default=1, bounds=(0, 10))
        p = Q()
        q2 = Q()
    events = []
    info = {'dyn': True, 'level': level, 'target': ['c', 'r', 'y'][tgt], 'valk': valk}
    with param.Dynamic.time_fn as t:
        saved_td = param.Dynamic.time_dependent
        param.Dynamic.time_dependent = True
        try:
            t(tm)
            if level == 0:
                p.x = gen
            p.param.watch(events.append, ['x', 'c', 'r', 'y'], onlychanged=False)
            first = p.x
            g = Q.param.x.default if level == 1 else gen

            def snap():
                return [p.x, p.param.inspect_value('x'), p.c, p.r, p.y, gen.n, gen2.n, _slots(Q.param.x), _slots(Q.param.y),
                        getattr(g, '_Dynamic_last', None), getattr(g, '_Dynamic_time', None), q2.x, q2.y]
            before = snap()
            name = ['c', 'r', 'y'][tgt]
            val = [gen, gen2, bad][valk]
            if name == 'y':
                assume(valk == 2)
            raised = False
            try:
                if level == 0:
                    setattr(p, name, val)
                else:
                    assume(name in ('r', 'y'))
                    setattr(Q, name, val)
            except (ValueError, TypeError):
                raised = True
            check('C02.raises', raised, info)
            after = snap()
            check('C02.values', after == before, dict(info, before=repr(before), after=repr(after)))
            check('C02.no_event', events == [], info)
            # class route on the dynamic parameter itself: an invalid plain value must leave the declaration alone
            if level == 1:
                try:
                    Q.x = 'bad'
                    raised = False
                except (ValueError, TypeError):
                    raised = True
                check('C02.raises', raised, info)
                check('C02.values', snap() == before, dict(info, second=True))
        finally:
            param.Dynamic.time_dependent = saved_td


dyn.ranges = lambda consts: dict(level=(0, 1), tgt=(0, 2), valk=(0, 2), tm=(0, 2))


prog.ranges = lambda consts: dict(p1=(0, 3), p2=(0, 3), pv1=(0, 10), pv2=(0, 10), rk=(0, 2), kind=(0, 6), route=(0, 3),
                                  s0v=(0, 10), after0=(0, 10), ctx=(0, 1))


def shards(tier):
    out = []
    q = tier == 'quick'
    k = 2
    for kind in range(7):
        for route in range(4):
            if route == 2 and kind not in (0, 3, 4):
                continue
            for rk in range(3):
                for ctx in (0, 1):
                    if ctx == 1 and route == 2:
                        continue
                    c = dict(k=k, kind=kind, route=route, rk=rk, ctx=ctx)
                    out.append(dict(name='k%d_r%d_rk%d_c%d' % (kind, route, rk, ctx), module='harness.c02', fn='prog', consts=c,
                                    budget_s=60 if q else 400))
    out.append(dict(name='resync', module='harness.c02', fn='resync', consts={}, budget_s=60 if q else 300))
    for level in (0, 1):
        out.append(dict(name='dyn_l%d' % level, module='harness.c02', fn='dyn', consts=dict(level=level), budget_s=60 if q else 300))
    return out


def bounds(tier):
    return dict(prefix_ops=2, prefix_opcodes=['nothing', 'plain set', 'link x to a source', 'update(y)'],
                reject_kinds=['invalid plain value on x', 'reference with invalid current value', 'constant', 'readonly', 'invalid plain value on y', 'reference handed to a constant allow_refs parameter', 'new object for a constant Selector with check_on_set=False'],
                routes=['instance', 'single-key update', 'class', 'update with the rejected key first and an Event key after it'],
                contexts=['no batch', 'history, attempt and probes inside batch_call_watchers'], reference_kinds=['Parameter', 'bind', 'rx'])
