"""C03 - each change reaches each watcher exactly once with true old/new values (outside batching contexts)."""
from harness import dispatch_prog as D

PROPERTY = 'C03'
LABELS = ['C03.values', 'C03.once', 'C03.order', 'C03.oldnew', 'C03.type', 'C03.visible', 'C03.queued_deferred',
          'C03.skip_only_equal', 'C03.skip_equal_families']
EXPLANATION = ("Harness c03.prog: 2-3 watchers with symbolic configuration (parameter subset, onlychanged, queued, precedence, "
               "args/kwargs mode, value or slot watcher, one cascading callback b := a + 1) and a program of k symbolic "
               "operations (set a/b/u, unwatch, trigger, slot set) run on a real Parameterized object and on the reference "
               "dispatcher models.dispatch.Model written from the statement; call sequence, events (old/new/type) and the "
               "values visible at callback entry are compared after every operation.")
STUBS = []
OUTSIDE = ["async callbacks", "more than 3 watchers, programs longer than k",
           "cascades other than the acyclic b := a + 1", "callbacks that assign while a trigger is being delivered (statement silent)",
           "changes-only filtering for equal values of families the statement does not list (unspecified: no assertion)"]
ASSUMPTIONS = ["values of a, b: unbounded symbolic ints; values of the untyped parameter u from an equality-subtle pool "
               "(1, True, 1.0, NaN, strings, None, nested containers, date vs datetime, object(), equal sets with different iteration order)",
               "programs with a queued assigning callback are compared as call multisets plus the never-dispatched-while-running "
               "constraint (the statement fixes no total order there)"]
OPS = (D.SET_A, D.SET_B, D.SET_U, D.UNWATCH, D.TRIGGER_A, D.SET_SLOT, D.UPDATE, D.UPDATE_AE)


def prog(k: int, nw: int, level: int, selfun: bool, act: bool,
         n1: int, oc1: bool, qd1: bool, pr1: int, kw1: bool,
         n2: int, oc2: bool, qd2: bool, pr2: int, kw2: bool,
         n3: int, oc3: bool, qd3: bool, pr3: int, kw3: bool,
         o1: int, x1: int, o2: int, x2: int, o3: int, x3: int, o4: int, x4: int) -> None:
    wc = [(n1, oc1, qd1, pr1, kw1), (n2, oc2, qd2, pr2, kw2), (n3, oc3, qd3, pr3, kw3)][:nw]
    ops = [(o1, x1), (o2, x2), (o3, x3), (o4, x4)][:k]
    D.run('C03', ops, wc, OPS, act, slot_w=True, level=level, selfun=selfun)


def eq(i: int, j: int, oc: bool) -> None:
    D.eq_run('C03', i, j, oc, 0)


eq.ranges = lambda consts: dict(i=(0, len(D.EQPOOL) - 1), j=(0, len(D.EQPOOL) - 1))


def clsdef(touch: bool, oc: bool, c1: int, v1: int, c2: int, v2: int) -> None:
    """The instance never set `a`; its per-instance Parameter object may or may not exist (touch); the class default
    changes (twice); then the instance assigns: old is the value attribute access returned just before, a changes-only
    watcher is called exactly when that value differs from the new one."""
    import param
    from sx.api import check, untraced, pickbool
    touch, oc = pickbool(touch), pickbool(oc)
    with untraced():
        class P(param.Parameterized):
            a = param.Integer(default=0)
        p = P()
    if touch:
        p.param.a          # creates the per-instance Parameter object
    P.a = c1
    log = []
    p.param.watch(lambda e: log.append((e.old, e.new, e.type)), 'a', onlychanged=oc)
    P.a = c2
    before = p.a
    p.a = v1
    info = {'class_default_changed': True, 'instance_parameter_exists': touch, 'onlychanged': oc}
    changed = True if before != v1 else False
    if changed or not oc:
        check('C03.once', len(log) == 1, dict(info, calls=len(log)))
        if log:
            check('C03.oldnew', log[0][0] == before and log[0][1] == v1, dict(info, old=log[0][0], before=before))
            check('C03.type', log[0][2] == ('changed' if oc else 'set'), dict(info, type=log[0][2]))
    else:
        check('C03.once', len(log) == 0, dict(info, calls=len(log), unchanged=True))
    n = len(log)
    before = p.a
    p.a = v2
    changed = True if before != v2 else False
    if changed or not oc:
        check('C03.once', len(log) == n + 1, dict(info, second=True))
        if len(log) > n:
            check('C03.oldnew', log[-1][0] == before and log[-1][1] == v2, dict(info, second=True))
    else:
        check('C03.once', len(log) == n, dict(info, second=True, unchanged=True))


clsdef.ranges = lambda consts: dict(c1=(-2, 2), c2=(-2, 2), v1=(-2, 2), v2=(-2, 2))


def dupreg(kwmode: bool, oc: bool, qd: bool, v1: int, v2: int, v3: int, un: int, cp: int = 0, route: int = 0) -> None:
    """The same callback registered twice with identical settings is two watchers: every qualifying assignment calls it
    twice; after unwatch of one handle (the first or the second) once; after unwatch of both never."""
    import param
    from sx.api import check, untraced, pickbool, pick
    kwmode, oc, qd = pickbool(kwmode), pickbool(oc), pickbool(qd)
    with untraced():
        class P(param.Parameterized):
            a = param.Integer(default=0)
        p = P()
    calls = []

    def cb(*events, **kw):
        calls.append(1)
    reg = p.param.watch_values if kwmode else p.param.watch
    w1 = reg(cb, ['a'], onlychanged=oc, queued=qd)
    w2 = reg(cb, ['a'], onlychanged=oc, queued=qd)
    cp = pick(cp, 0, 2)
    route = pick(route, 0, 2)
    if cp:
        # the assignments go to a copy of the object (deepcopy / pickle-free shallow route): two registrations stay two
        import copy as _copy
        with untraced():
            p = _copy.deepcopy(p) if cp == 1 else _copy.copy(p)
    info = {'duplicate_registration': True, 'kw': kwmode, 'onlychanged': oc, 'queued': qd, 'copied': cp, 'route': route}
    before = p.a
    if route == 0:
        p.a = v1
    elif route == 1:
        p.param.update(a=v1)
    else:
        with param.parameterized.batch_call_watchers(p):
            p.a = v1
    fire = (not oc) or (True if before != v1 else False)
    check('C03.once', len(calls) == (2 if fire else 0), dict(info, calls=len(calls), step=0))
    un = pick(un, 0, 1)
    if cp:
        return          # the handles belong to the original object
    p.param.unwatch(w1 if un == 0 else w2)
    n = len(calls)
    before = p.a
    p.a = v2
    fire = (not oc) or (True if before != v2 else False)
    check('C03.once', len(calls) - n == (1 if fire else 0), dict(info, calls=len(calls) - n, step=1, unwatched=un))
    p.param.unwatch(w2 if un == 0 else w1)
    n = len(calls)
    p.a = v3
    check('C03.once', len(calls) == n, dict(info, calls=len(calls) - n, step=2))


dupreg.ranges = lambda consts: dict(v1=(-1, 1), v2=(-1, 1), v3=(-1, 1), un=(0, 1), cp=(0, 2), route=(0, 2))


def repname(oc: bool, qd: bool, v1: int, route: int) -> None:
    """One watcher registered with a repeated parameter name (['a', 'a']) is one watcher: one call per qualifying
    assignment, carrying one event for a."""
    import param
    from sx.api import check, untraced, pickbool, pick, assume
    oc, qd = pickbool(oc), pickbool(qd)
    route = pick(route, 0, 2)
    with untraced():
        class P(param.Parameterized):
            a = param.Integer(default=0)
        p = P()
    calls = []
    w = p.param.watch(lambda *events: calls.append([e.name for e in events]), ['a', 'a'], onlychanged=oc, queued=qd)
    assume(v1 != 0)
    if route == 0:
        p.a = v1
    elif route == 1:
        p.param.update(a=v1)
    else:
        with param.parameterized.batch_call_watchers(p):
            p.a = v1
    info = {'repeated_name': True, 'onlychanged': oc, 'queued': qd, 'route': route}
    check('C03.once', calls == [['a']], dict(info, calls=repr(calls)))
    p.param.unwatch(w)
    p.a = v1 + 1
    check('C03.once', calls == [['a']], dict(info, after_unwatch=True, calls=repr(calls)))


repname.ranges = lambda consts: dict(v1=(-1, 1), route=(0, 2))


def _ranges(consts):
    r = {}
    q = consts['nw'] == 2
    for i in (1, 2, 3):
        r['n%d' % i] = (0, 4)
        r['pr%d' % i] = (0, 1 if q else 2)
    for i in (1, 2, 3, 4):
        r['o%d' % i] = (min(OPS), max(OPS))
    return r


prog.ranges = _ranges


def shards(tier):
    out = []
    q = tier == 'quick'
    k, nw = (2, 2) if q else (3, 3)
    for i in range(len(D.EQPOOL)):
        out.append(dict(name='eq_%d' % i, module='harness.c03', fn='eq', consts=dict(i=i), budget_s=60 if q else 300))
    out.append(dict(name='repname', module='harness.c03', fn='repname', consts={}, budget_s=30 if q else 60))
    out.append(dict(name='dupreg', module='harness.c03', fn='dupreg', consts={}, budget_s=40 if q else 120))
    for touch in (False, True):
        out.append(dict(name='clsdef_%d' % touch, module='harness.c03', fn='clsdef', consts=dict(touch=touch), budget_s=40 if q else 120))
    for n1 in ((0, 2, 3) if q else range(5)):
        for n2 in range(4 if q else 5):
            if q and (n1, n2) not in ((0, 0), (0, 2), (2, 1), (3, 0), (2, 2), (0, 3)):
                continue
            for o1 in OPS:
                if o1 == D.UNWATCH and q:
                    continue
                if q and (n1, n2) != (0, 2) and o1 not in (D.SET_A, D.UPDATE, D.TRIGGER_A):
                    continue       # quick: every first opcode only for the watcher pair (a | a,b)
                for o2 in OPS:
                    c = dict(k=k, nw=nw, n1=n1, n2=n2, o1=o1, o2=o2, level=0, selfun=False)
                    if q:
                        c.update(kw1=False)
                    for j in range(k + 1, 5):
                        c.update({'o%d' % j: 0, 'x%d' % j: 0})
                    if nw < 3:
                        c.update(n3=0, oc3=False, qd3=False, pr3=0, kw3=False)
                    out.append(dict(name='n%d%d_o%d%d' % (n1, n2, o1, o2), module='harness.c03', fn='prog', consts=c,
                                    budget_s=30 if q else 600))
    # class-level registration and assignment (fresh class per path)
    for (n1, n2) in (((0, 2),) if q else ((0, 2), (2, 1), (3, 0))):
        for o1 in OPS:
            if o1 == D.UNWATCH and q:
                continue
            if q and o1 not in (D.SET_A, D.UPDATE, D.TRIGGER_A):
                continue
            for o2 in OPS:
                c = dict(k=2 if q else 3, nw=2, n1=n1, n2=n2, o1=o1, o2=o2, level=1, selfun=False, kw1=False, n3=0, oc3=False, qd3=False, pr3=0, kw3=False)
                for j in range(c['k'] + 1, 5):
                    c.update({'o%d' % j: 0, 'x%d' % j: 0})
                out.append(dict(name='cls_n%d%d_o%d%d' % (n1, n2, o1, o2), module='harness.c03', fn='prog', consts=c,
                                budget_s=60 if q else 600))
    # a callback that removes its own watcher while the event is being dispatched (3 watchers on a)
    for o1 in (D.SET_A, D.TRIGGER_A):
        for o2 in OPS:
            if o2 == D.UNWATCH:
                continue
            c = dict(k=2, nw=3, n1=0, n2=0, n3=2, o1=o1, o2=o2, level=0, selfun=True, act=False, kw1=False, kw2=False, kw3=False)
            for j in range(3, 5):
                c.update({'o%d' % j: 0, 'x%d' % j: 0})
            out.append(dict(name='selfun_o%d%d' % (o1, o2), module='harness.c03', fn='prog', consts=c, budget_s=25 if q else 300))
    return out


def bounds(tier):
    q = tier == 'quick'
    return dict(program_length=2 if q else 3, watchers=2 if q else 3, opcodes=[D.OPNAMES[o] for o in OPS],
                precedence='0..1' if q else '0..2', names=[list(n) for n in D.NAMES[:4 if q else 5]], u_pool=len(D.UPOOL),
                levels=['instance', 'class (fresh class per path)'], equality_pool=len(D.EQPOOL), equality_pairs=len(D.EQPOOL) ** 2)
