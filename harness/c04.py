"""C04 - batched dispatch defers, coalesces and delivers once on outermost exit."""
from harness import dispatch_prog as D

PROPERTY = 'C04'
LABELS = ['C04.update_ctx_restores', 'C04.values', 'C04.deferred', 'C04.once', 'C04.order', 'C04.oldnew', 'C04.type', 'C04.visible', 'C04.queued_deferred']
EXPLANATION = ("Harness c04.prog: programs of k symbolic operations over set a/b/e, update(a,b), trigger, and ENTER/EXIT opcodes for "
               "batch_call_watchers, discard_events and update-as-context (arbitrary nestings up to depth 2), with 2 watchers of "
               "symbolic configuration, run on a real object and on the reference dispatcher (statement semantics: deferred while "
               "any context is open, one call per watcher at the outermost exit with one event per parameter that had a qualifying "
               "event for that watcher carrying the final value, precedence order, discard drops exactly the events raised inside, "
               "trigger type/bypass/no value change, Event reset, update-context restore); a family of the same programs runs on a deepcopy / shallow copy of the object the watchers were registered on.")
STUBS = []
OUTSIDE = ["pickle round trips of watched objects (callbacks are local functions)", "class-level batching", "nesting deeper than 2", "programs longer than k", "the `old` field of an event that coalesces several "
           "assignments (statement: 'carrying the final value')", "assigning callbacks in C04 programs (covered in C03)"]
ASSUMPTIONS = ["a mismatch is attributed to a listed known finding only if the real trace equals the trace of the model variant that "
               "encodes exactly that deviation (per-parameter coalescing), or the program contains a trigger inside an open batch"]
OPS = (D.SET_A, D.SET_B, D.TRIGGER_A, D.UPDATE, D.BATCH_ENTER, D.DISCARD_ENTER, D.UPDCTX_ENTER, D.EXIT, D.SET_E, D.TRIGGER_E, D.TRIGGER_AB, D.UPDATE_AE)
NAMES_IDX = (0, 1, 2, 5)


def prog(k: int, n1: int, oc1: bool, qd1: bool, pr1: int, kw1: bool, n2: int, oc2: bool, qd2: bool, pr2: int, kw2: bool,
         o1: int, x1: int, o2: int, x2: int, o3: int, x3: int, o4: int, x4: int, o5: int, x5: int, copied: int = 0) -> None:
    wc = [(n1, oc1, qd1, pr1, kw1), (n2, oc2, qd2, pr2, kw2)]
    ops = [(o1, x1), (o2, x2), (o3, x3), (o4, x4), (o5, x5)][:k]
    D.run('C04', ops, wc, OPS, False, copied=copied)


def dynctx(inb: bool, v: int, w: int, nested: bool, ur: int = 0) -> None:
    """`with p.param.update(...)` restores the previous values also when a previous value is a dynamic generator or a link."""
    import param
    from param.parameterized import batch_call_watchers
    from sx.api import check, untraced, pickbool, pick

    class Src(param.Parameterized):
        v = param.Integer(default=1)

    class Q(param.Parameterized):
        n = param.Number(default=0)
        x = param.Integer(default=0, allow_refs=True)
        y = param.Integer(default=0)
    with untraced():
        gen = lambda: 5
        s = Src()
        q = Q(n=gen, x=s.param.v)
    inb, nested = pickbool(inb), pickbool(nested)
    cm = None
    if inb:
        cm = batch_call_watchers(q)
        cm.__enter__()
    ur = pick(ur, 0, 2)          # keywords / a dict / an iterable of (name, value) pairs
    ctx = q.param.update(n=v, x=w, y=v) if ur == 0 else (q.param.update({'n': v, 'x': w, 'y': v}) if ur == 1
                                                          else q.param.update([('n', v), ('x', w), ('y', v)]))
    with ctx:
        if nested:
            with q.param.update(n=w):
                pass
        check('C04.update_ctx_restores', q.y == v and q.x == w, {'inside': True})
    if cm is not None:
        cm.__exit__(None, None, None)
    info = {'in_batch': inb, 'nested': nested}
    check('C04.update_ctx_restores', q.param.get_value_generator('n') is gen and q.n == 5, dict(info, what='dynamic value'))
    check('C04.update_ctx_restores', q.y == 0, dict(info, what='plain value'))
    s.v = 9
    check('C04.update_ctx_restores', q.x == 9, dict(info, what='link'))
    # param.trigger alters no value: a dynamic value stays the generator, a link stays a link
    q.param.trigger('n', 'x')
    check('C04.values', q.param.get_value_generator('n') is gen, dict(info, what='trigger on a dynamic value'))
    s.v = 11
    check('C04.values', q.x == 11, dict(info, what='trigger on a linked parameter'))


dynctx.ranges = lambda consts: dict(ur=(0, 2))


def _ranges(consts):
    r = {}
    for i in (1, 2):
        r['pr%d' % i] = (0, 1)
    for i in (1, 2, 3, 4, 5):
        r['o%d' % i] = (min(OPS), max(OPS))
    return r


prog.ranges = _ranges


def shards(tier):
    out = []
    q = tier == 'quick'
    k = 3 if q else 4
    enter = (D.BATCH_ENTER, D.DISCARD_ENTER, D.UPDCTX_ENTER)
    for n1 in NAMES_IDX:
        for n2 in NAMES_IDX:
            if q and (n1, n2) not in ((0, 2), (5, 2)):
                continue
            for o1 in OPS:
                if o1 == D.EXIT:
                    continue
                if q and o1 not in (D.BATCH_ENTER, D.DISCARD_ENTER) and not (o1 == D.UPDCTX_ENTER and (n1, n2) == (0, 2)):
                    continue        # quick: programs that open a context first (programs without any context are C03's)
                for o2 in OPS:
                    if q and (n1, n2) == (5, 2) and o2 not in (D.SET_E, D.TRIGGER_E, D.UPDATE, D.BATCH_ENTER, D.UPDATE_AE):
                        continue      # quick: the Event-parameter watcher pair only meets programs that touch e early
                    if q and (n1, n2) == (0, 2) and o2 in (D.SET_E, D.TRIGGER_E, D.TRIGGER_AB):
                        continue
                    c = dict(k=k, n1=n1, n2=n2, o1=o1, o2=o2, kw1=False, kw2=False, copied=0)
                    if q:
                        c.update(qd1=False, qd2=False)     # callbacks do not assign here, so `queued` is unobservable
                    for j in range(k + 1, 6):
                        c.update({'o%d' % j: 0, 'x%d' % j: 0})
                    out.append(dict(name='n%d%d_o%d_%d' % (n1, n2, o1, o2), module='harness.c04', fn='prog', consts=c,
                                    budget_s=60 if q else 600))
    if q:   # nested contexts: [batch, op, discard|batch, op] + unwinding
        for o2 in (D.SET_A, D.SET_B, D.UPDATE):
            for o3 in (D.DISCARD_ENTER, D.BATCH_ENTER):
                c = dict(k=4, n1=0, n2=2, o1=D.BATCH_ENTER, o2=o2, o3=o3, kw1=False, kw2=False, o5=0, x5=0, qd1=False, qd2=False, copied=0)
                out.append(dict(name='nest_o%d_%d' % (o2, o3), module='harness.c04', fn='prog', consts=c, budget_s=60))
    # the same programs on a deepcopy / shallow copy of the object the watchers were registered on
    for copied in (1, 2):
        for o2 in (D.SET_A, D.SET_B, D.UPDATE, D.TRIGGER_A) if q else OPS:
            if o2 == D.EXIT:
                continue
            c = dict(k=k, n1=0, n2=2, o1=D.BATCH_ENTER, o2=o2, kw1=False, kw2=False, copied=copied, qd1=False, qd2=False)
            for j in range(k + 1, 6):
                c.update({'o%d' % j: 0, 'x%d' % j: 0})
            out.append(dict(name='copy%d_o%d' % (copied, o2), module='harness.c04', fn='prog', consts=c, budget_s=60 if q else 600))
    out.append(dict(name='dynctx', module='harness.c04', fn='dynctx', consts={}, budget_s=60))
    return out


def bounds(tier):
    q = tier == 'quick'
    return dict(program_length='3 (+ nested family [batch, op, discard|batch, op]); open contexts are closed and compared at the end' if q else 4, watchers=2, opcodes=[D.OPNAMES[o] for o in OPS], nesting_depth=2,
                first_opcode='batch or discard ENTER' if q else 'any', precedence='0..1',
                names=[list(D.NAMES[i]) for i in NAMES_IDX])
