"""C05 - failures never corrupt the dispatch state.
Symbolic: kind of the failing operation, position of the fault (raiser precedence, key order), surrounding batch,
values, a second fault; oracle: differential - a fixed probe on the faulted object vs the same probe on a fresh twin."""
import param
from param.parameterized import batch_call_watchers, discard_events, edit_constant
from sx.api import assume, check, cover, untraced, pick, pickbool

PROPERTY = 'C05'
LABELS = ['C05.twin_equal', 'C05.still_deferred_in_batch', 'C05.announced_by_raise', 'C05.fault_raised', 'C05.constant_flags',
          'C05.event_reset']
EXPLANATION = ("Harness c05.prog: one or two failing operations (symbolic kind: raising watcher during set / trigger / batch flush / "
               "queued callback, rejected value or unknown key at a symbolic position of param.update, exception escaping the body of "
               "batch_call_watchers / discard_events / edit_constant / an update context, rejected constructor value), optionally "
               "inside a surrounding batch; afterwards a fixed probe (same-value set, changing set, batch, Event set, constant set, "
               "update) runs on the faulted object and on a freshly built twin with the same values and watchers and the two "
               "callback traces must be equal.")
STUBS = []
OUTSIDE = ["more than two faults", "faults inside nested batches deeper than 1", "what happens to the remaining watchers of the dispatch "
           "during which a watcher raised (statement silent)", "async callbacks"]
ASSUMPTIONS = ["values: symbolic unbounded ints for a, b in [0,10] (declared bounds), fault kinds from the list in bounds()"]

KINDS = ['set with raising watcher', 'update rejected value', 'trigger with raising watcher', 'batch flush with raising watcher',
         'batch body raises', 'discard body raises', 'edit_constant body raises', 'update-context body raises',
         'constructor rejected value', 'update unknown key', 'set with raising queued watcher', 'update with raising watcher',
         'trigger unknown name', 'update rejected value before an Event key', 'trigger a,e with raising watcher',
         'update a,e with raising watcher', 'trigger of a linked parameter with raising watcher',
         'source update rejected by the linked parameter', 'source update with raising watcher on the linked parameter',
         'set Event with raising watcher', 'batch{b=2; trigger of an unknown name}', 'queued watcher assigns b then raises',
         'batch{b=2; trigger of a list invalidated in place}']


class Boom(Exception):
    pass


class P(param.Parameterized):
    a = param.Integer(default=0)
    b = param.Integer(default=1, bounds=(0, 10))
    e = param.Event()
    c = param.Integer(default=3, constant=True)
    l = param.Integer(default=0, bounds=(0, 10), allow_refs=True)
    li = param.List(default=[1], item_type=int)


class Src(param.Parameterized):
    v = param.Integer(default=0)


def _build(vals, pr_r, qd_r):
    """object with the given values and the standard watcher set; returns (obj, trace, arm)"""
    src = Src(v=vals.get('l', 0))
    p = P(l=src.param.v)          # l follows src.v
    with param.parameterized.discard_events(p):
        p.a = vals['a']
        p.b = vals['b']
        if 'c' in vals:
            with edit_constant(p):
                p.c = vals['c']
    trace = []
    arm = {'on': False, 'src': src}

    def raiser(*events):
        trace.append(('R', tuple((e.name, e.old, e.new, e.type) for e in events), (p.a, p.b, p.e)))
        if arm['on']:
            arm['on'] = False
            if arm.get('assign'):
                arm['assign'] = False
                p.b = 3                 # an assignment made by the (queued) callback before it fails
            raise Boom()

    def obs(*events):
        trace.append(('O', tuple((e.name, e.old, e.new, e.type) for e in events), (p.a, p.b, p.e)))

    def obs2(*events):
        trace.append(('S', tuple((e.name, e.old, e.new, e.type) for e in events), (p.a, p.b, p.e)))
    p.param.watch(raiser, ['a', 'l', 'e'], onlychanged=False, precedence=pr_r, queued=qd_r)
    p.param.watch(obs, ['a', 'b', 'e', 'l'], onlychanged=True, precedence=1)
    p.param.watch(obs2, ['a'], onlychanged=False, precedence=1)
    return p, trace, arm


def _fault(p, arm, kind, v, pos):
    """perform the failing operation; returns (raised?, exception class name)"""
    try:
        if kind == 0 or kind == 10:
            arm['on'] = True
            p.a = v
        elif kind == 1:
            if pos:
                p.param.update(a=v, b=99)
            else:
                p.param.update(b=99, a=v)
        elif kind == 2:
            arm['on'] = True
            p.param.trigger('a')
        elif kind == 3:
            with batch_call_watchers(p):
                p.b = 2
                arm['on'] = True
                p.a = v
        elif kind == 4:
            with batch_call_watchers(p):
                p.a = v
                raise Boom()
        elif kind == 5:
            with discard_events(p):
                p.a = v
                raise Boom()
        elif kind == 6:
            with edit_constant(p):
                p.c = 4
                raise Boom()
        elif kind == 7:
            with p.param.update(a=v):
                raise Boom()
        elif kind == 8:
            P(a=v, b=99)
        elif kind == 9:
            if pos:
                p.param.update(a=v, zz=1)
            else:
                p.param.update(zz=1, a=v)
        elif kind == 11:
            arm['on'] = True
            p.param.update(a=v, b=2)
        elif kind == 12:
            p.param.trigger('a', 'nope')
        elif kind == 13:
            if pos:
                p.param.update(b=99, e=True)
            else:
                p.param.update(zz=1, e=True)
        elif kind == 14:
            arm['on'] = True
            p.param.trigger('a', 'e')
        elif kind == 15:
            arm['on'] = True
            p.param.update(a=v, e=True)
        elif kind == 16:
            arm['on'] = True
            p.param.trigger('l')
        elif kind == 17:
            arm['src'].v = 99             # invalid for l: the source assignment raises while propagating
        elif kind == 18:
            arm['on'] = True
            arm['src'].v = 4
        elif kind == 19:
            arm['on'] = True
            p.e = True
        elif kind == 20:
            with batch_call_watchers(p):
                p.b = 2
                p.param.trigger('a', 'nope')
        elif kind == 21:
            arm['on'] = True
            arm['assign'] = True
            p.a = v
        elif kind == 22:
            with batch_call_watchers(p):
                p.b = 2
                p.li = [1]
                p.li.append('bad')        # now invalid; trigger re-validates and fails after it has parked the queues
                p.param.trigger('li')
        return False, None
    except (Boom, ValueError, TypeError, KeyError) as ex:
        return True, type(ex).__name__
    finally:
        arm['on'] = False


def _probe(p, trace, x, src):
    """fixed probe program; everything observable goes to the trace"""
    out = []
    p.a = p.a                       # same value: changes-only watcher silent, plain watchers 'set'
    p.a = x                         # changing (or not) value
    with batch_call_watchers(p):
        p.b = 5
        p.a = x + 1
        out.append(('in_batch', len(trace)))
    p.e = True
    out.append(('e_after', p.e))
    try:
        p.c = 9
        out.append(('const', 'assigned'))
    except TypeError:
        out.append(('const', 'TypeError'))
    p.param.update(a=x + 2, b=6)
    p.param.trigger('b')
    out.append(('vals', p.a, p.b, p.e, p.c))
    src.v = 6                       # the link is still followed ...
    out.append(('linked', p.l))
    p.l = 3                         # ... until a plain value ends it
    src.v = 8
    out.append(('unlinked', p.l))
    return out


def prog(k1: int, k2: int, in_batch: bool, pr_r: int, v1: int, v2: int, pos1: bool, pos2: bool, x: int) -> None:
    in_batch = pickbool(in_batch)
    pos1, pos2 = pickbool(pos1), pickbool(pos2)
    k1 = pick(k1, 0, len(KINDS) - 1)
    k2 = pick(k2, -1, len(KINDS) - 1)          # -1: no second fault
    qd_r = (k1 in (10, 21) or k2 in (10, 21))
    with untraced():
        p, trace, arm = _build({'a': 0, 'b': 1}, pr_r, qd_r)
    info = {'kind1': KINDS[k1], 'kind2': KINDS[k2] if k2 >= 0 else None, 'in_batch': in_batch, 'pos1': pos1}
    cm = None
    if in_batch:
        cm = batch_call_watchers(p)
        cm.__enter__()
    a_before = p.a
    n_before = len(trace)
    raised, exc = _fault(p, arm, k1, v1, pos1)
    cover('C05.kind.%s' % KINDS[k1])
    if k1 not in (0, 2, 3, 10, 11, 14, 15, 16, 18, 19, 21) or not in_batch:
        # inside a surrounding batch the watcher-raising kinds only fail at the flush
        check('C05.fault_raised', raised, dict(info, exc=exc))
    if k2 >= 0:
        _fault(p, arm, k2, v2, pos2)
    if in_batch:
        check('C05.still_deferred_in_batch', len(trace) == n_before, dict(info, during_fault=True, ran=len(trace) - n_before))
        n = len(trace)
        p.b = 7
        check('C05.still_deferred_in_batch', len(trace) == n, info)
        arm['on'] = False
        try:
            cm.__exit__(None, None, None)
        except Boom:
            pass
    # changes applied before a rejected value in update are announced by now
    if k1 in (1, 9) and k2 < 0:
        applied = (p.a is not a_before) and pos1
        if pos1:
            got = any(t[0] == 'S' and any(ev[0] == 'a' and ev[2] is v1 for ev in t[1]) for t in trace[n_before:])
            check('C05.announced_by_raise', got, dict(info, ntrace=len(trace) - n_before))
    if k1 in (20, 22) and k2 < 0:
        # b = 2 was applied (and queued) before the failing trigger: it is announced once the batch has been left
        got = any(t[0] == 'O' and any(ev[0] == 'b' and ev[2] == (7 if in_batch else 2) for ev in t[1]) for t in trace[n_before:])
        check('C05.announced_by_raise', got, dict(info, ntrace=len(trace) - n_before))
    # constant flags restored
    check('C05.constant_flags', p.param.c.constant is True and P.param.c.constant is True, info)
    check('C05.event_reset', p.e is False, info)
    # --- differential probe against a freshly built twin
    with untraced():
        pass
    t, ttrace, tarm = _build({'a': p.a, 'b': p.b, 'c': p.c, 'l': p.l}, pr_r, qd_r)
    n0 = len(trace)
    out_f = _probe(p, trace, x, arm['src'])
    out_t = _probe(t, ttrace, x, tarm['src'])
    rel_f = [(o[0], o[1] - n0) if o[0] == 'in_batch' else o for o in out_f]
    rel_t = list(out_t)
    check('C05.twin_equal', _eq(trace[n0:], ttrace), dict(info, faulted=repr(trace[n0:])[:600], twin=repr(ttrace)[:600]))
    check('C05.twin_equal', _eq(rel_f, rel_t), dict(info, faulted_out=repr(rel_f), twin_out=repr(rel_t)))


def _eq(a, b):
    if isinstance(a, (list, tuple)) and isinstance(b, (list, tuple)):
        if len(a) != len(b):
            return False
        for x, y in zip(a, b):
            if not _eq(x, y):
                return False
        return True
    if a is b:
        return True
    return True if a == b else False


prog.ranges = lambda consts: dict(k1=(0, len(KINDS) - 1), k2=(-1, len(KINDS) - 1), pr_r=(0, 2))


def shards(tier):
    out = []
    q = tier == 'quick'
    for k1 in range(len(KINDS)):
        for ib in (False, True):
            if q:       # no second fault, or one of three kinds (fixed value, fixed key order)
                for k2 in ((-1, 1, 2, 4) if k1 < 16 else ((-1, 2) if k1 < 19 else (-1,))):
                    out.append(dict(name='k%d_%d_b%d' % (k1, k2, ib), module='harness.c05', fn='prog',
                                    consts=dict(k1=k1, k2=k2, in_batch=ib, v2=1, pos2=True), budget_s=60))
            else:
                for k2 in range(-1, len(KINDS)):
                    out.append(dict(name='k%d_%d_b%d' % (k1, k2, ib), module='harness.c05', fn='prog',
                                    consts=dict(k1=k1, k2=k2, in_batch=ib), budget_s=300))
    return out


def bounds(tier):
    return dict(fault_kinds=KINDS, faults='1 or 2 (quick: second fault from {update rejected value, trigger with raising watcher, batch body raises}, fixed value/key order)', surrounding_batch=[False, True], raiser_precedence='0..2 (before, with, after the observers)',
                update_key_position=['rejected key first', 'rejected key second'])
