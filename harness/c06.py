"""C06 - depends(watch=True) methods run exactly once per change of a dependency.
Symbolic: dependency sets, override pattern, on_init, program of k operations and values."""
import param
from param.parameterized import batch_call_watchers
from sx.api import assume, check, cover, untraced, pick, pickbool

PROPERTY = 'C06'
LABELS = ['C06.init_assignment_seen', 'C06.once', 'C06.on_init_once', 'C06.override_replaces', 'C06.method_dep', 'C06.function_form']
EXPLANATION = ("Harness c06.prog: classes are built inside the path from symbolic choices (dependency set of the base method from "
               "{a | b | a,b | b:bounds | a,b:bounds}, on_init, override pattern: none / decorated override with another dependency "
               "set / undecorated override / grandchild inheriting a decorated override / mixin in front of the base), plus a method "
               "depending on the first method and a function-form dependency; after construction and after each of k symbolic "
               "operations (set a, set b, set b.bounds, update(a,b), batch{a; b.bounds}, batch{a; b; a}, batch{a; b.bounds; b}; the slot b:bounds always has a watching method) the number of calls of each "
               "method is compared with: exactly one call iff at least one resolved dependency changed.")
STUBS = []
OUTSIDE = ["which dependencies an inherited method follows when the method it names as a dependency is overridden in a subclass (statement silent; the implementation keeps the ancestor's)", "sub-object dependencies (C07)", "async methods", "queued=True on depends", "more than 3 classes in the hierarchy"]
ASSUMPTIONS = ["values symbolic ints in [0,10] (b has bounds), bounds edits (0, 10+x)"]
DEPSETS = [('a',), ('b',), ('a', 'b'), ('b:bounds',), ('a', 'b:bounds')]
N_OPS = 9
DICTS = [{'a': 1, 'b': 2}, {'a': 1, 'c': 2}, {'a': 1, 'b': 3}, {'b': 2, 'a': 1}]
OV = ['none', 'decorated override', 'undecorated override', 'grandchild of a decorated override', 'mixin in front of the base',
      'grandchild of an undecorated override', 'diamond D(L, R): L inherits, R overrides (decorated)']


def prog(ds1: int, init1: bool, ov: int, ds2: int, init2: bool, k: int,
         o1: int, x1: int, o2: int, x2: int, o3: int, x3: int, o4: int, x4: int) -> None:
    ds1 = pick(ds1, 0, 4)
    ds2 = pick(ds2, 0, 4)
    ov = pick(ov, 0, 6)
    init1, init2 = pickbool(init1), pickbool(init2)
    with untraced():   # class construction is concrete once the choices are realised
        log = []

        class A(param.Parameterized):
            a = param.Integer(default=0)
            b = param.Integer(default=0, bounds=(0, 10))
            c = param.Integer(default=0)
            d = param.Dict(default={'a': 1, 'b': 2})

            @param.depends('d', watch=True)
            def dm(self):          # a dict-valued dependency: change judged as for changes-only watchers (==)
                log.append('dm')

            @param.depends(*DEPSETS[ds1], watch=True, on_init=init1)
            def m(self):
                log.append('A.m')
                if self.c == 0 and init1:
                    self.c = 1          # an on_init method that assigns: later-declared dependents must see it

            @param.depends('c', watch=True)
            def wc(self):
                log.append('wc')

            @param.depends('m', watch=True)
            def via(self):
                log.append('via')

            @param.depends('b:bounds', watch=True)
            def sl(self):          # keeps the slot watched whatever m depends on
                log.append('sl')
        if ov == 0:
            K, eff, auto, tag, einit = A, DEPSETS[ds1], True, 'A.m', init1
        elif ov in (1, 3):
            class B(A):
                @param.depends(*DEPSETS[ds2], watch=True, on_init=init2)
                def m(self):
                    log.append('B.m')
            K, eff, auto, tag, einit = B, DEPSETS[ds2], True, 'B.m', init2
            if ov == 3:
                class C(B):
                    pass
                K = C
        elif ov == 6:
            class L(A):
                pass

            class R(A):
                @param.depends(*DEPSETS[ds2], watch=True, on_init=init2)
                def m(self):
                    log.append('B.m')

            class D(L, R):
                pass
            K, eff, auto, tag, einit = D, DEPSETS[ds2], True, 'B.m', init2
        elif ov in (2, 5):
            class B(A):
                def m(self):
                    log.append('B.plain')
            K, eff, auto, tag, einit = B, (), False, 'B.plain', False
            if ov == 5:
                class C(B):
                    pass
                K = C
        else:
            class M:
                def helper(self):
                    return 1

            class B(M, A):
                pass
            K, eff, auto, tag, einit = B, DEPSETS[ds1], True, 'A.m', init1
    p = K()
    info0 = {'override': OV[ov], 'deps': list(eff), 'on_init': einit}
    check('C06.on_init_once', log.count(tag) == (1 if (auto and einit) else 0), dict(info0, log=list(log)))
    if ov in (0, 4) and init1:
        check('C06.init_assignment_seen', log.count('wc') == 1 and p.c == 1, dict(info0, log=list(log)))
    else:
        check('C06.init_assignment_seen', True)
    if ov in (1, 2, 3, 5, 6):
        check('C06.override_replaces', log.count('A.m') == 0, dict(info0, log=list(log)))
    flog = []
    glog = []
    with untraced():
        f = param.depends(p.param.a, watch=True)(lambda a: flog.append(a))
        class A2(param.Parameterized):
            a = param.Integer(default=0)
        p2 = A2()
        # function form over like-named Parameters of two objects
        g = param.depends(p.param.a, p2.param.a, watch=True)(lambda a, a2: glog.append((a, a2)))
    st = {'a': 0, 'b': 0, 'bb': (0, 10), 'd': {'a': 1, 'b': 2}, 'a2': 0}
    for step, (o, x) in enumerate(((o1, x1), (o2, x2), (o3, x3), (o4, x4))[:k]):
        o = pick(o, 0, N_OPS - 1)
        cover('C06.op%d' % o)
        del log[:]
        del flog[:]
        del glog[:]
        ch = set()

        def setv(n, v):
            if st[n] != v:
                ch.add(n)
            st[n] = v
        batch_kinds = set()
        if o == 8:      # the like-named parameter of the second object changes
            p2.a = x
            check('C06.function_form', len(glog) == (1 if st['a2'] != x else 0) and len(flog) == 0,
                  dict(info0, op=o, second_object=True, g=len(glog), f=len(flog)))
            st['a2'] = x
        elif o == 7:      # a dict-valued dependency replaced by an equal / a different dict of the same size
            nd = dict(DICTS[pick(x, 0, 3)])
            p.d = nd
            check('C06.once', log.count('dm') == (0 if nd == st['d'] else 1),
                  dict(info0, op=o, dict_valued=True, old=repr(st['d']), new=repr(nd), got=log.count('dm')))
            st['d'] = nd
        elif o == 0:
            p.a = x
            setv('a', x)
        elif o == 1:
            p.b = x
            setv('b', x)
        elif o == 2:
            nb = (0, 10 + x)
            p.param.b.bounds = nb
            if st['bb'] != nb:
                ch.add('b:bounds')
            st['bb'] = nb
        elif o == 3:
            p.param.update(a=x, b=x)
            setv('a', x)
            setv('b', x)
        elif o == 4:
            nb = (0, 10 + x)
            with batch_call_watchers(p):
                p.a = x
                p.param.b.bounds = nb
            setv('a', x)
            if st['bb'] != nb:
                ch.add('b:bounds')
            st['bb'] = nb
        elif o == 5:
            with batch_call_watchers(p):
                p.a = x
                p.b = x
                p.a = x + 1
            setv('a', x + 1)
            if x != x + 1:
                ch.add('a')        # a was assigned twice inside the batch; it ends different from x
            setv('b', x)
        else:           # a watched slot is assigned between two value assignments of one batch
            nb = (0, 10 + x)
            with batch_call_watchers(p):
                p.a = x
                p.param.b.bounds = nb
                p.b = x
            setv('a', x)
            setv('b', x)
            if st['bb'] != nb:
                ch.add('b:bounds')
            st['bb'] = nb
        hit = [d for d in eff if d in ch]
        exp = 1 if (auto and hit) else 0
        got = log.count(tag)
        kinds = {('slot' if ':' in d else 'value') for d in hit}
        info = dict(info0, op=o, got=got, exp=exp, changed=sorted(ch), value_and_slot_in_one_batch=(o in (4, 6) and len(kinds) == 2))
        check('C06.once', got == exp, info)
        if ov in (1, 2, 3, 5, 6):
            check('C06.override_replaces', log.count('A.m') == 0, dict(info, log=list(log)))
        # the method that names m as a dependency follows m's (effective) dependencies
        if auto and ov in (0, 4):
            check('C06.method_dep', log.count('via') == exp, dict(info, via=log.count('via')))
        check('C06.function_form', len(flog) == (1 if 'a' in ch else 0), dict(info, f=len(flog)))
        if o != 8:
            check('C06.function_form', len(glog) == (1 if 'a' in ch else 0), dict(info, g=len(glog), two_objects=True))


def _ranges(consts):
    r = dict(ds1=(0, 4), ds2=(0, 4), ov=(0, 6))
    for n in (1, 2, 3, 4):
        r['o%d' % n] = (0, N_OPS - 1)
        r['x%d' % n] = (0, 10)
    return r


prog.ranges = _ranges


def shards(tier):
    out = []
    q = tier == 'quick'
    k = 2 if q else 3
    for ov in range(7):
        for ds1 in range(5):
            for ds2 in (range(5) if ov in (1, 3, 6) else (0,)):
                if q and ov in (1, 3, 6) and ds2 not in ((0, 3) if ov != 6 else (1,)):
                    continue
                c = dict(ov=ov, ds1=ds1, ds2=ds2, k=k)
                for j in range(k + 1, 5):
                    c.update({'o%d' % j: 0, 'x%d' % j: 0})
                if ov not in (1, 3, 6):
                    c.update(init2=False)
                out.append(dict(name='ov%d_d%d%d' % (ov, ds1, ds2), module='harness.c06', fn='prog', consts=c,
                                budget_s=40 if q else 600))
    return out


def bounds(tier):
    return dict(program_length=2 if tier == 'quick' else 3, dependency_sets=[list(d) for d in DEPSETS], override_patterns=OV,
                opcodes=['set a', 'set b', 'set b.bounds', 'update(a,b)', 'batch{a; b.bounds}', 'batch{a; b; a}', 'batch{a; b.bounds; b}', 'set the Dict parameter d', 'set a on a second object (function form over two objects)'], values='[0,10]')
