"""C07 - sub-object dependencies follow the object currently attached.
Symbolic: history of k operations (attach/replace/detach at depth 1 and 2, leaf assignments on attached and detached
objects), values; concrete (shard): dependency set of the watching method."""
import param
from sx.api import assume, check, cover, untraced, pick, pickbool

PROPERTY = 'C07'
LABELS = ['C07.once_iff_changed', 'C07.detached_silent', 'C07.no_stale_watchers']
EXPLANATION = ("Harness c07.prog: a parent with a depends(watch=True) method over a path dependency set ('a.x' | 'a.x','a.y' | "
               "'a.x','a.b.x' | 'a.param') and pools of sub-objects; after every one of k symbolic operations the number of method "
               "calls is compared with a path-value model (values reached through the current path before vs after, both sides "
               "resolving), operations on detached objects must be silent and detached objects must hold no watcher; at one symbolic step the dependent method itself raises (the following steps must behave as if it had not); a variant has two methods through the same intermediate object ('a.b.x' and 'a.b.y'); leaf values include None.")
STUBS = []
OUTSIDE = ["operations that make a dependency path start or stop resolving (attach from / detach to None): the statement only "
           "covers paths resolving both before and after, so no call count is asserted there", "paths deeper than 2",
           "more than 3 + 2 pool objects"]
ASSUMPTIONS = ["leaf values symbolic unbounded ints"]
VARIANTS = [('a.x',), ('a.x', 'a.y'), ('a.x', 'a.b.x'), ('a.param',), ('a.x', 'c.y'), ('a.b', 'a.b.x'), ('a.b.x',), ('a', 'a.x')]
DEPS2 = {6: ('a.b.y',)}      # variant 6: a second method through the same intermediate object
N_OPS = 8
NONE_CODE = -1               # this leaf value stands for None (the leaves allow None)


class Boom(Exception):
    pass


class Node(param.Parameterized):
    def __len__(self):          # sub-objects are falsy (empty containers): None and "empty" must not be confused
        return 0

    x = param.Integer(default=0, allow_None=True)
    y = param.Integer(default=0, allow_None=True)
    b = param.ClassSelector(class_=param.Parameterized, default=None)


_TOPS = {}


def _mk_top(deps, sub=False, deps2=None):
    # the classes carry no per-path state (all operations are instance-level): built once per process
    key = (deps, sub, deps2)
    if key not in _TOPS:
        _TOPS[key] = _mk_top_(deps, sub, deps2)
    return _TOPS[key]


def _mk_top_(deps, sub=False, deps2=None):
    class Top(param.Parameterized):
        a = param.ClassSelector(class_=Node, default=None)
        c = param.ClassSelector(class_=Node, default=None)

        def __init__(self, **kw):
            self.calls = 0
            self.calls2 = 0
            self.boom = False
            super().__init__(**kw)

        @param.depends(*deps, watch=True)
        def m(self):
            self.calls += 1
            if self.boom:           # armed by the harness for one step: the dependent method itself fails
                self.boom = False
                raise Boom()

        if deps2:
            @param.depends(*deps2, watch=True)
            def m2(self):
                self.calls2 += 1
    class Top2(Top):       # the dependent method is inherited, not declared, by the instantiated class
        pass
    return Top2 if sub else Top


def _nwatchers(o):
    return sum(len(l) for d in o.param.watchers.values() for l in d.values())


def prog(variant: int, k: int, nm: int, inh: bool, o1: int, i1: int, v1: int, o2: int, i2: int, v2: int, o3: int, i3: int, v3: int,
         o4: int, i4: int, v4: int, bs: int = -1) -> None:
    deps = VARIANTS[variant]
    deps2 = DEPS2.get(variant)
    with untraced():
        Top = _mk_top(deps, inh, deps2)
        # explicit, identical names: with 'a.param' the auto-generated names would make every replacement a change
        mids = [Node(name='cfg'), Node(name='cfg', x=1, y=1), Node(name='cfg')]     # the second of each pool starts with other values
        leaves = [Node(name='leaf'), Node(name='leaf', x=1, y=1)]
        t = Top(a=mids[0])
    cur = 0                       # index of the mid attached at t.a, or None
    curc = None                   # index of the mid attached at the second root t.c, or None
    sub = [None, None, None]      # index of the leaf attached at mids[i].b
    mv = [[0, 0], [1, 1], [0, 0]]
    lv = [[0, 0], [1, 1]]

    def reach(deps=deps):
        """per dependency: (resolves?, value)"""
        out = []
        for d in deps:
            if d == 'a':
                out.append((True, ('root', cur)))
            elif d == 'c.y':
                out.append((True, mv[curc][1]) if curc is not None else (False, None))
            elif cur is None:
                out.append((False, None))
            elif d == 'a.x':
                out.append((True, mv[cur][0]))
            elif d == 'a.y':
                out.append((True, mv[cur][1]))
            elif d == 'a.b':
                out.append((True, ('obj', sub[cur])))
            elif d == 'a.b.x':
                out.append((True, lv[sub[cur]][0]) if sub[cur] is not None else (False, None))
            elif d == 'a.b.y':
                out.append((True, lv[sub[cur]][1]) if sub[cur] is not None else (False, None))
            else:   # a.param: every parameter of the attached object
                out.append((True, (0, mv[cur][0], mv[cur][1], sub[cur])))       # names are identical: only x, y, b count
        return out

    for step, (o, i, v) in enumerate(((o1, i1, v1), (o2, i2, v2), (o3, i3, v3), (o4, i4, v4))[:k]):
        o = pick(o, 0, N_OPS - 1)
        cover('C07.op%d' % o)
        if o in (2, 3, 5, 7) and v == NONE_CODE:
            v = None                 # leaves may hold None: None, 0 and other values are all different
        before = reach()
        before2 = reach(deps2) if deps2 else None
        cur0 = cur
        calls0 = t.calls
        calls20 = t.calls2
        on_path = True
        t.boom = (step == bs)        # at one (symbolic) step the dependent method raises after having been called
        # the model is updated first: an exception escaping the dependent method leaves the assignment itself done
        real = None
        if o == 0:      # attach / replace at depth 1
            i = pick(i, 0, nm - 1)
            cur = i
            real = lambda: setattr(t, 'a', mids[i])
        elif o == 1:    # detach
            cur = None
            real = lambda: setattr(t, 'a', None)
        elif o in (2, 3):    # leaf assignment on a mid object (attached or not)
            i = pick(i, 0, nm - 1)
            on_path = (cur == i) or (curc == i)
            if o == 2:
                mv[i][0] = v
                real = lambda: setattr(mids[i], 'x', v)
            else:
                mv[i][1] = v
                real = lambda: setattr(mids[i], 'y', v)
        elif o == 6:    # attach / replace / detach at the second root
            i = pick(i, 0, nm)
            curc = i if i < nm else None
            real = lambda: setattr(t, 'c', mids[i] if i < nm else None)
        elif o == 4:    # attach / replace at depth 2
            i = pick(i, 0, nm - 1)
            j = pick(v, 0, 2)
            assume(0 <= j <= 2)
            sub[i] = j if j < 2 else None
            on_path = (cur == i)
            real = lambda: setattr(mids[i], 'b', leaves[j] if j < 2 else None)
        elif o == 5:    # assignment on a depth-2 leaf
            j = pick(i, 0, 1)
            lv[j][0] = v
            on_path = cur is not None and sub[cur] == j
            real = lambda: setattr(leaves[j], 'x', v)
        else:           # o == 7: assignment of y on a depth-2 leaf
            j = pick(i, 0, 1)
            lv[j][1] = v
            on_path = cur is not None and sub[cur] == j
            real = lambda: setattr(leaves[j], 'y', v)
        try:
            real()
            boomed = False
        except Boom:
            boomed = True
        t.boom = False
        after = reach()
        got = t.calls - calls0
        info = {'op': o, 'variant': list(deps), 'variant_id': variant, 'step': step, 'on_path': on_path, 'method_raised': boomed,
                'after_raise': 0 <= bs < step}
        if not on_path:
            check('C07.detached_silent', got == 0 and t.calls2 == calls20, dict(info, got=got))
        else:
            rootnone = cur0 is None or cur is None
            _judge(deps, before, after, got, info, rootnone)
            if deps2 and not boomed:
                # (what happens to the remaining watchers of a dispatch during which one dependent method raised is not
                #  fixed by the statement: the second method is only judged for steps in which the first one did not raise)
                _judge(deps2, before2, reach(deps2), t.calls2 - calls20, dict(info, method='m2'), rootnone)
        # detached objects keep no watcher on the parent's behalf
        attached_mid = cur
        attached_leaf = sub[cur] if cur is not None else None
        for idx, mobj in enumerate(mids):
            if idx != attached_mid and not ('c.y' in deps and idx == curc):
                check('C07.no_stale_watchers', _nwatchers(mobj) == 0, dict(info, obj='mid%d' % idx, n=_nwatchers(mobj)))
        for idx, lobj in enumerate(leaves):
            if idx != attached_leaf or not any(d.startswith('a.b') for d in deps + (deps2 or ())):
                if not (deps == ('a.param',)):
                    check('C07.no_stale_watchers', _nwatchers(lobj) == 0, dict(info, obj='leaf%d' % idx, n=_nwatchers(lobj)))


def _judge(deps, before, after, got, info, rootnone):
    same_resolution = all(b[0] == a[0] for b, a in zip(before, after))
    if not same_resolution:
        return
    if rootnone and info['op'] in (0, 1) and any(not b[0] for b in before):
        # the root itself starts / stops resolving underneath a dependency that resolves on neither side: a prefix of the
        # path changes resolution, which the statement (paths resolving both before and after) does not cover
        return
    changed = False
    for b, a in zip(before, after):
        if b[0] and (True if b[1] != a[1] else False):
            changed = True
    objvalued = ('a' in deps) or ((deps == ('a.param',) and any(b[0] and b[1][3] is not None for b in list(before) + list(after)))
                 or ('a.b' in deps and any(b[0] and isinstance(b[1], tuple) and b[1][0] == 'obj' and b[1][1] is not None
                                           for b in list(before) + list(after))))
    if changed or not objvalued:
        # (equality of Parameterized-valued parameters reached through 'a.param' is not fixed by the statement:
        #  a spurious call for an unchanged sub-object value is not asserted against)
        both = ('a' in deps and any(b[0] and isinstance(b[1], tuple) and b[1][0] == 'root' and b[1] != a[1] for b, a in zip(before, after))
                and any(b[0] and not isinstance(b[1], tuple) and (True if b[1] != a[1] else False) for b, a in zip(before, after)))
        check('C07.once_iff_changed', got == (1 if changed else 0), dict(info, got=got, changed=changed, root_and_subpath_changed=both))


def _nops(variant):
    return 8 if variant == 6 else (7 if variant == 4 else 6)


def _ranges(consts):
    r = {}
    for n in (1, 2, 3, 4):
        r['o%d' % n] = (0, _nops(consts['variant']) - 1)
        r['i%d' % n] = (0, consts['nm'])
    r['bs'] = (0, consts['k'] - 2)        # the raising step is never the last one (bs = -1, never, is a shard constant)
    return r


prog.ranges = _ranges


def shards(tier):
    out = []
    q = tier == 'quick'
    k = 3 if q else 4
    for variant in range(len(VARIANTS)):
        nops = _nops(variant)
        for o1 in range(nops):
            if variant == 6 and o1 == 6:
                continue       # the second root is only watched in variant 4
            if q and variant in (0, 1, 4) and o1 in (4, 5):
                continue       # quick: depth-2 operations first only for the variants that have a depth-2 dependency
            if q and variant == 6 and o1 not in (0, 4, 5):
                continue
            if q and variant == 3 and o1 not in (0, 2):
                continue
            if q and variant == 7 and o1 != 0:
                continue
            if q and variant == 2 and o1 not in (0, 2, 4, 5):
                continue
            if q and variant == 1 and o1 not in (0, 3):
                continue
            if q and variant == 0 and o1 not in (0, 1, 2):
                continue
            if q and variant == 4 and o1 not in (0, 6):
                continue
            if q and variant == 5 and o1 not in (0, 4):
                continue
            for o2 in range(nops):
                if variant == 6 and o2 == 6:
                    continue
                c = dict(variant=variant, k=k, o1=o1, o2=o2, nm=2 if q else 3, inh=(variant in (2, 5)))
                if variant == 6:
                    c.update(nm=2)
                if k < 4:
                    c.update(o4=0, i4=0, v4=0)
                out.append(dict(name='v%d_o%d%d' % (variant, o1, o2), module='harness.c07', fn='prog', consts=dict(c, bs=-1),
                                budget_s=40 if q else 600))
                if (o1 in (0, 4) if not q else ((variant, o1) in ((2, 0), (2, 4), (6, 0)))) and variant in ((2, 6) if q else (0, 2, 4, 5, 6)):
                    # the same programs with the dependent method raising at a symbolic step
                    out.append(dict(name='boom_v%d_o%d%d' % (variant, o1, o2), module='harness.c07', fn='prog', consts=dict(c),
                                    budget_s=40 if q else 600))
    return out


def bounds(tier):
    return dict(program_length=3 if tier == 'quick' else 4, dependency_sets=[list(v) for v in VARIANTS], mid_pool=2 if tier == 'quick' else 3, leaf_pool=2,
                opcodes=['attach mid i', 'detach', 'set x on mid i', 'set y on mid i', 'attach leaf j (or None) under mid i', 'set x on leaf j', 'attach mid i (or None) at the second root c', 'set y on leaf j'],
                method_raises='at one symbolic step (or never) the dependent method raises after being called', leaf_values='ints and None')
