"""C08 - a linked parameter mirrors its reference until it is overridden.
Symbolic: history of k operations (source updates incl. values invalid for the target, relinks, overrides, update-context
enter/exit, relinking the other parameters) and values; concrete (shard): reference kind, link time."""
import param
from sx.api import assume, check, cover, untraced, pick, pickbool

PROPERTY = 'C08'
LABELS = ['C08.mirrors', 'C08.other_links_alive', 'C08.nested_mirrors', 'C08.no_stale_watcher', 'C08.invalid_rejected',
          'C08.update_ctx_restores_link']
EXPLANATION = ("Harness c08.prog: a target with two allow_refs Integer parameters (x bounded) and a nested_refs List, linked in the "
               "constructor or by later assignment to Parameter / bind / rx / depends-function references; after every one of k "
               "symbolic operations the values are compared with an independently computed resolution of the currently installed "
               "reference, and the sources' watcher tables with the set of links that should exist.")
STUBS = []
OUTSIDE = ["async references (C10)", "class-level references", "references nested deeper than one list level"]
ASSUMPTIONS = ["x has bounds (0, 50); source values symbolic ints; a source value whose resolution is outside the bounds must be "
               "rejected (the source assignment raises) and leaves x at its previous value"]
N_OPS = 11
KINDS = ['Parameter', 'bind', 'rx', 'depends function', 'nestedbind: bind over a nested bind given as keyword, two sources with the same parameter name']


class S(param.Parameterized):
    v = param.Integer(default=0)


class T(param.Parameterized):
    x = param.Integer(default=0, bounds=(0, 50), allow_refs=True)
    y = param.Integer(default=0, allow_refs=True)
    z = param.List(default=[], allow_refs=True, nested_refs=True)
    w = param.Integer(default=0, allow_refs=True, per_instance=False)     # no per-instance Parameter object


def _nwatch(src, tgt):
    n = 0
    for d in src.param.watchers.values():
        for l in d.values():
            for w in l:
                if getattr(w.fn, '__self__', None) is not None and getattr(w.fn.__self__, 'self', None) is tgt:
                    n += 1
    return n


def prog(kind: int, at_ctor: bool, k: int, last_is_update: bool, o1: int, v1: int, o2: int, v2: int, o3: int, v3: int, o4: int, v4: int,
         ur: int = 0) -> None:
    with untraced():
        s0, s1, s2 = S(), S(), S()
        srcs = [s0, s1]

    def mkref(s):
        if kind == 0:
            return s.param.v
        if kind == 1:
            return param.bind(lambda v: v + 1, s.param.v)
        if kind == 2:
            return s.param.v.rx() * 2
        if kind == 4:
            return param.bind(lambda w: w, w=param.bind(lambda a, b: a + b, a=s.param.v, b=s2.param.v))
        f = param.depends(s.param.v)(lambda v: v + 1)
        return f

    def resolve(s):
        return [s.v, s.v + 1, s.v * 2, s.v + 1, s.v + s2.v][kind]
    if pickbool(at_ctor):
        t = T(x=mkref(s0), y=s1.param.v, z=[s1.param.v, 7], w=s1.param.v)
        linked_w = None
    else:
        t = T()
        t.x = mkref(s0)
        t.y = s1.param.v
        t.z = [s1.param.v, 7]
        try:
            t.w = s1.param.v
            linked_w = None
        except Exception as e:      # noqa  reported through the label below
            linked_w = type(e).__name__
    check('C08.other_links_alive', linked_w is None and t.w == s1.v, {'per_instance_false': True, 'at_ctor': at_ctor, 'raised': linked_w})
    st = {'xsrc': 0, 'ysrc': 1, 'zsrc': 1, 'curx': resolve(s0), 'cury': s1.v}
    ctx = []
    for step, (o, v) in enumerate(((o1, v1), (o2, v2), (o3, v3), (o4, v4))[:k]):
        o = pick(o, 0, N_OPS - 1)
        cover('C08.op%d' % o)
        info = {'op': o, 'kind': KINDS[kind].split(':')[0], 'step': step, 'at_ctor': at_ctor}
        if o == 10:
            assume(kind == 4)                 # the second source of the nested bind
            newx = (srcs[st['xsrc']].v + v) if st['xsrc'] is not None else None
            try:
                s2.v = v
                raised = False
            except ValueError:
                raised = True
            if newx is not None and not (0 <= newx <= 50):
                check('C08.invalid_rejected', t.x == st['curx'], info)
            else:
                check('C08.invalid_rejected', not raised, info)
                if newx is not None:
                    st['curx'] = newx
        elif o in (0, 1):                     # source update
            s = srcs[o]
            newx = None
            if st['xsrc'] == o:
                r = [v, v + 1, v * 2, v + 1, v + s2.v][kind]
                newx = r
            try:
                s.v = v
                raised = False
            except ValueError:
                raised = True
            if newx is not None and not (0 <= newx <= 50):
                # the resolved value is invalid for x: x keeps its previous (valid) value; the source assignment may raise
                check('C08.invalid_rejected', t.x == st['curx'], info)
                if o == 1:
                    check('C08.other_links_alive', t.w == s1.v, dict(info, sibling_of_rejected=True, per_instance_false=True))
                if st['ysrc'] == o or st['zsrc'] == o:
                    info = dict(info, sibling_of_rejected=True)
                    if st['ysrc'] == o:
                        st['cury'] = v
                    check('C08.other_links_alive', t.y == srcs[st['ysrc']].v, info)
                    check('C08.nested_mirrors', t.z == [srcs[st['zsrc']].v, 7], info)
            else:
                check('C08.invalid_rejected', not raised, info)
                if newx is not None:
                    st['curx'] = newx
            if st['ysrc'] == o:
                st['cury'] = v
        elif o in (2, 4):                     # relink x
            i = 1 if o == 2 else 0
            r = resolve(srcs[i])
            assume(0 <= r <= 50)
            t.x = mkref(srcs[i])
            st['xsrc'] = i
            st['curx'] = r
        elif o == 3:                          # override x with a plain value
            assume(0 <= v <= 50)
            t.x = v
            st['xsrc'] = None
            st['curx'] = v
        elif o == 5:                          # update as context manager
            assume(len(ctx) < 1 and 0 <= v <= 50)
            ur = pick(ur, 0, 2)          # route of the update context: keywords / a dict / an iterable of (name, value) pairs
            cm = t.param.update(x=v) if ur == 0 else (t.param.update({'x': v}) if ur == 1 else t.param.update([('x', v)]))
            cm.__enter__()
            ctx.append((cm, st['xsrc'], st['curx']))
            st['xsrc'] = None
            st['curx'] = v
        elif o == 6:
            assume(len(ctx) > 0)
            cm, xs, cx = ctx.pop()
            st['xsrc'] = xs
            st['curx'] = cx if xs is None else resolve(srcs[xs])
            assume(0 <= st['curx'] <= 50)
            cm.__exit__(None, None, None)
            check('C08.update_ctx_restores_link', t.x == st['curx'], info)
        elif o == 7:                          # relink the other parameter
            t.y = s0.param.v
            st['ysrc'] = 0
            st['cury'] = s0.v
        elif o == 9:                          # param.trigger on the linked parameters: no value and no link changes
            t.param.trigger('x', 'y')
        elif o == 8:                          # relink the nested container
            t.z = [s0.param.v, 7]
            st['zsrc'] = 0
        check('C08.mirrors', t.x == st['curx'], dict(info, x=t.x, expect=st['curx']))
        check('C08.other_links_alive', t.y == srcs[st['ysrc']].v, info)
        check('C08.nested_mirrors', t.z == [srcs[st['zsrc']].v, 7], info)
        check('C08.other_links_alive', t.w == s1.v, dict(info, per_instance_false=True))
        for i, s in enumerate(srcs):
            need = 1 if (st['xsrc'] == i or st['ysrc'] == i or st['zsrc'] == i or i == 1) else 0      # w follows s1 throughout
            check('C08.no_stale_watcher', _nwatch(s, t) == need, dict(info, src=i, have=_nwatch(s, t), need=need))


prog.ranges = lambda consts: dict(ur=(0, 2), o1=(0, N_OPS - 1), o2=(0, N_OPS - 1), o3=(0, 1) if consts.get('last_is_update') and consts['k'] == 3 else (0, N_OPS - 1),
                                  o4=(0, 1) if consts.get('last_is_update') else (0, N_OPS - 1))


def shards(tier):
    out = []
    q = tier == 'quick'
    k = 3 if q else 4
    for kind in range(5):
        for at_ctor in (False, True):
            for o1 in range(N_OPS):
                if o1 == 6 or (o1 == 10 and kind != 4):
                    continue
                if q and kind == 4 and o1 not in (0, 2, 3, 10):
                    continue
                c = dict(kind=kind, at_ctor=at_ctor, k=k, o1=o1, last_is_update=q)
                if k < 4:
                    c.update(o4=0, v4=0)
                out.append(dict(name='%s_c%d_o%d' % (KINDS[kind].split(':')[0].split()[0], at_ctor, o1), module='harness.c08', fn='prog',
                                consts=c, budget_s=60 if q else 600))
    return out


def bounds(tier):
    return dict(program_length='3, the last operation being a source update' if tier == 'quick' else 4, reference_kinds=KINDS, link_time=['constructor', 'later assignment'],
                opcodes=['set s0.v', 'set s1.v', 'relink x to s1', 'override x', 'relink x to s0', 'update-context enter',
                         'update-context exit', 'relink y', 'relink nested z', "trigger('x','y')", 'set the second source of the nested bind'],
                update_context_routes=['keywords', 'dict', 'iterable of pairs'])
