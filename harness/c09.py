"""C09 - reactive expressions evaluate to the plain-Python result on current inputs.
Symbolic: operator of each node (from the operator table), operand kinds, history of input updates / reads / late
derivation, input values; oracle: plain-Python evaluation of the same tree."""
import math
import operator

import param
from param import rx
from sx.api import assume, check, cover, untraced, pick, pickbool

PROPERTY = 'C09'
LABELS = ['C09.where_chain', 'C09.builds', 'C09.value', 'C09.exception_same', 'C09.recovers', 'C09.reflected_supported', 'C09.watch_called',
          'C09.derived_value', 'C09.table_complete']
EXPLANATION = ("Harness c09.prog: an expression e1 = op1(root, X) (op1 from the full operator table read from rx's class dict at run "
               "time: forward and reflected binary operators, unary operators, .rx helpers, getitem, method call; X a constant, a "
               "Parameter, a bind function, or the root itself) and a derived e2 = op2(e1, Y) built at a symbolic point of the "
               "history; history of k symbolic steps (set root, set parameter, read e1, derive/read e2) with a .rx.watch callback; "
               "every read is compared with the plain-Python evaluation of the same tree on the current inputs (value or exception "
               "class), exceptions must clear once inputs are valid again.")
STUBS = []
OUTSIDE = ["async pipelines (C10)", "expression depth > 2", "operands of types other than int / tuple / str (family E: containers as inputs of pipe / len only)",
           "symbolic second operands of non-linear operators (the Parameter operand is realised from [-2,2], constants from a pool)",

           "operators applied to the result of .rx.where (it returns a bound function, not an rx)"]
ASSUMPTIONS = ["root value symbolic int in [-4,4]; parameter value picked from [-2,2]; expression construction evaluates eagerly in "
               "param, so an expression is only built on inputs for which the plain expression is defined"]

BIN = [('add', operator.add), ('sub', operator.sub), ('mul', operator.mul), ('truediv', operator.truediv),
       ('floordiv', operator.floordiv), ('mod', operator.mod), ('pow', operator.pow), ('lshift', operator.lshift),
       ('rshift', operator.rshift), ('and', operator.and_), ('or', operator.or_), ('xor', operator.xor),
       ('divmod', divmod), ('lt', operator.lt), ('le', operator.le), ('gt', operator.gt), ('ge', operator.ge),
       ('eq', operator.eq), ('ne', operator.ne)]
UN = [('neg', operator.neg), ('pos', operator.pos), ('invert', operator.invert), ('abs', abs), ('round', round),
      ('trunc', math.trunc), ('floor', math.floor), ('ceil', math.ceil)]
SEQ = (10, 20, 30, 40, 50)
# helpers / indexing / method call: (name, build(e, y), plain(v, yv))
HELP = [
    ('pipe', lambda e, y: e.rx.pipe(lambda v, w: v - w, y), lambda v, w: v - w),
    ('where', lambda e, y: (e > 0).rx.where(y, -1), lambda v, w: w if v > 0 else -1),
    ('and_', lambda e, y: e.rx.and_(y), lambda v, w: v and w),
    ('or_', lambda e, y: e.rx.or_(y), lambda v, w: v or w),
    ('not_', lambda e, y: e.rx.not_(), lambda v, w: not v),
    ('bool', lambda e, y: e.rx.bool(), lambda v, w: bool(v)),
    ('in_', lambda e, y: e.rx.in_((0, 1, y)), lambda v, w: v in (0, 1, w)),
    ('is_', lambda e, y: e.rx.is_(None), lambda v, w: v is None),
    ('is_not', lambda e, y: e.rx.is_not(None), lambda v, w: v is not None),
    ('getitem', lambda e, y: rx(SEQ)[e], lambda v, w: SEQ[v]),
    ('method', lambda e, y: e.bit_length(), lambda v, w: v.bit_length()),
    ('attr_real', lambda e, y: e.real, lambda v, w: v.real),            # attribute access recorded as an operation
    ('attr_num', lambda e, y: e.numerator, lambda v, w: v.numerator),
    ('len_map', lambda e, y: rx(SEQ).rx.map(lambda i, k: i + k, e).rx.len(), lambda v, w: len([i + v for i in SEQ])),
    # the unselected branch of where() is a reactive expression that raises on the current inputs: it must not be evaluated
    ('where_lazy', lambda e, y: (e != 0).rx.where(100 // e, -7), lambda v, w: (100 // v) if v != 0 else -7),
    ('where_lazy2', lambda e, y: (e == 0).rx.where(-7, rx(SEQ)[e + 10]), lambda v, w: -7 if v == 0 else SEQ[v + 10]),
]
N1 = 2 * len(BIN) + len(UN) + len(HELP)


def _ev(g):
    try:
        return ('ok', g())
    except Exception as e:      # noqa
        return ('exc', type(e).__name__)


def _node(op):
    """(name, reflected?, build(e, y), plain(v, yv))"""
    if op < len(BIN):
        n, f = BIN[op]
        return n, False, (lambda e, y: f(e, y)), (lambda v, w: f(v, w))
    op -= len(BIN)
    if op < len(BIN):
        n, f = BIN[op]
        return 'r' + n, True, (lambda e, y: f(y, e)), (lambda v, w: f(w, v))
    op -= len(BIN)
    if op < len(UN):
        n, f = UN[op]
        return n, False, (lambda e, y: f(e)), (lambda v, w: f(v))
    op -= len(UN)
    n, b, p = HELP[op]
    return n, False, b, p


NONLIN = {'where_lazy', 'where_lazy2', 'mul', 'truediv', 'floordiv', 'mod', 'pow', 'lshift', 'rshift', 'divmod', 'and', 'or', 'xor', 'invert', 'round',
          'trunc', 'floor', 'ceil', 'getitem', 'method', 'len_map', 'abs', 'attr_real', 'attr_num'}


def _nonlinear(op):
    return _node(op)[0].lstrip('r') in NONLIN or _node(op)[0] in NONLIN


class PQ(param.Parameterized):
    q = param.Integer(default=1)


def prog(op1: int, xk: int, op2: int, yk: int, k: int, vr: int, watch: bool, a0: int, q0: int, c: int,
         h1: int, v1: int, h2: int, v2: int, h3: int, v3: int, h4: int, v4: int) -> None:
    q0 = pick(q0, -vr, vr)
    c = pick(c, 0, 3)
    conc = _nonlinear(op1) or _nonlinear(op2)
    if conc:
        a0 = pick(a0, -vr, vr)       # non-linear operators: the root is realised from a small range
    with untraced():
        p = PQ(q=q0)
    r = rx(a0)
    n1, refl1, build1, plain1 = _node(op1)
    n2, refl2, build2, plain2 = _node(op2)

    def operand(kind):
        """(object used in the expression, function giving its current plain value)"""
        if kind == 0:
            return c, (lambda: c)
        if kind == 1:
            return p.param.q, (lambda: p.q)
        if kind == 2:
            return param.bind(lambda q: q + 1, p.param.q), (lambda: p.q + 1)
        return r, (lambda: r.rx.value)
    X, xval = operand(xk)
    rootval = [a0]
    f1 = lambda: plain1(rootval[0], xval() if xk != 3 else rootval[0])
    info = {'op1': n1, 'x': xk, 'op2': n2, 'y': yk}
    p0 = _ev(f1)
    assume(p0[0] == 'ok')                 # construction evaluates eagerly
    b = _ev(lambda: build1(r, X))
    check('C09.reflected_supported' if refl1 else 'C09.builds', b[0] == 'ok' and hasattr(b[1], 'rx'), dict(info, built=b[0], exc=b[1] if b[0] == 'exc' else None))
    e1 = b[1]
    watched = []
    if pickbool(watch):      # a registered callback re-evaluates e1 eagerly, so histories are explored with and without it
        e1.rx.watch(lambda v: watched.append(v))
    e2 = None
    Y = yval = None
    last_ok = p0[1]
    had_exc = False
    read_exc = False
    for step, (h, v) in enumerate(((h1, v1), (h2, v2), (h3, v3), (h4, v4))[:k]):
        h = pick(h, 0, 3)
        cover('C09.h%d' % h)
        inf = dict(info, step=step, h=h)
        if h == 0:            # update the root
            nw = len(watched)
            if conc:
                v = pick(v, -vr, vr)
            _ev(lambda: setattr(r.rx, 'value', v))      # with a watcher registered the evaluation error surfaces here
            rootval[0] = v
            now = _ev(f1)
            if watch and now[0] == 'ok' and not had_exc and (True if now[1] != last_ok else False):
                check('C09.watch_called', len(watched) > nw and watched[-1] == now[1], dict(inf, calls=len(watched) - nw))
            if now[0] == 'ok':
                last_ok = now[1]
                had_exc = False
            else:
                had_exc = True
        elif h == 1:          # update the parameter operand
            v = pick(v, -vr, vr)
            nw = len(watched)
            _ev(lambda: setattr(p, 'q', v))
            now = _ev(f1)
            if watch and xk in (1, 2) and now[0] == 'ok' and not had_exc and (True if now[1] != last_ok else False):
                check('C09.watch_called', len(watched) > nw and watched[-1] == now[1], dict(inf, calls=len(watched) - nw))
            if now[0] == 'ok':
                last_ok = now[1]
                had_exc = False
            else:
                had_exc = True
        elif h == 2:          # read e1
            exp = _ev(f1)
            got = _ev(lambda: e1.rx.value)
            if exp[0] == 'ok':
                check('C09.recovers' if read_exc else 'C09.value', got == exp, dict(inf, got=repr(got), exp=repr(exp)))
                read_exc = False
            else:
                check('C09.exception_same', got == exp, dict(inf, got=repr(got), exp=repr(exp)))
                read_exc = True
        else:                 # derive e2 from e1 (first time) and read it
            assume(not n1.startswith('where'))         # .rx.where returns a bound function: operators cannot be applied to it
            if e2 is None:
                Y, yval = operand(yk if yk != 3 else 0)
                pe = _ev(lambda: plain2(f1(), yval()))
                assume(pe[0] == 'ok')
                bb = _ev(lambda: build2(e1, Y))
                check('C09.reflected_supported' if refl2 else 'C09.builds', bb[0] == 'ok' and hasattr(bb[1], 'rx'), dict(inf, built=bb[0]))
                e2 = bb[1]
            exp = _ev(lambda: plain2(f1(), yval()))
            got = _ev(lambda: e2.rx.value)
            check('C09.derived_value', got == exp, dict(inf, got=repr(got), exp=repr(exp)))


def whereprog(form: int, h1: int, v1: int, h2: int, v2: int, h3: int, v3: int, h4: int, v4: int) -> None:
    """Expressions over the result of .rx.where with a reactive branch.  form 0: a chain rooted at the where result
    (e1 = w.rx() + 1, e2 = e1 * 2); form 1: the where result as a non-root operand (e1 = o + w.rx(), e2 = e1 * 2).
    History steps: 0 set the selected/unselected branch x, 1 flip/set the condition, 2 set o, 3 read e1, 4 read e2."""
    form = pick(form, 0, 1)
    c, x, o = rx(True), rx(5), rx(100)
    w = c.rx.where(x, -1)
    if form == 0:
        e1 = w.rx() + 1
        f1 = lambda: (x.rx.value if c.rx.value else -1) + 1
    else:
        e1 = o + w.rx()
        f1 = lambda: o.rx.value + (x.rx.value if c.rx.value else -1)
    e2 = e1 * 2
    e1.rx.value
    e2.rx.value
    for step, (h, v) in enumerate(((h1, v1), (h2, v2), (h3, v3), (h4, v4))):
        h = pick(h, 0, 4)
        v = pick(v, 0, 2)
        info = {'form': form, 'step': step, 'h': h, 'where_as_operand': form == 1}
        if h == 0:
            x.rx.value = 10 + v
        elif h == 1:
            c.rx.value = (v != 0)
        elif h == 2:
            o.rx.value = 200 + v
        elif h == 3:
            check('C09.where_chain', e1.rx.value == f1(), dict(info, got=e1.rx.value, exp=f1()))
        else:
            check('C09.where_chain', e2.rx.value == f1() * 2, dict(info, got=e2.rx.value, exp=f1() * 2))
    info = {'form': form, 'step': 'final', 'where_as_operand': form == 1}
    check('C09.where_chain', e2.rx.value == f1() * 2 and e1.rx.value == f1(), dict(info, e1=e1.rx.value, e2=e2.rx.value, exp=f1()))


whereprog.ranges = lambda consts: dict(form=(0, 1), h1=(0, 4), h2=(0, 4), h3=(0, 4), h4=(0, 4), v1=(0, 2), v2=(0, 2), v3=(0, 2), v4=(0, 2))


CONT = [{'a': 1, 'b': 2}, {'a': 1, 'c': 2}, {'a': 1, 'b': 3}, {'b': 2, 'a': 1}, [1, 2], [2, 1], [1, 2, 3], (1, 2), {1, 2}, {2, 3}]


class PD(param.Parameterized):
    d = param.Parameter(default=None)


def contprog(src: int, h1: int, v1: int, h2: int, v2: int, h3: int, v3: int, h4: int, v4: int) -> None:
    """Container-valued inputs (dicts of the same size with renamed keys / changed values / reordered, lists, tuples, sets):
    e1 = sorted-keys pipe, e2 = len, e3 = membership; the input is an rx root (src 0) or a Parameter (src 1)."""
    src = pick(src, 0, 1)
    cur = [dict(CONT[0])]
    if src == 0:
        r = rx(dict(CONT[0]))
        base = r

        def setv(v):
            r.rx.value = v
    else:
        with untraced():
            pd = PD(d=dict(CONT[0]))
        base = pd.param.d.rx()

        def setv(v):
            pd.d = v
    e1 = base.rx.pipe(lambda c: sorted(c, key=repr))
    e2 = base.rx.len()
    e3 = base.rx.pipe(lambda c: 'c' in c)
    seen = []
    e1.rx.watch(lambda v: seen.append(v))
    for step, (h, v) in enumerate(((h1, v1), (h2, v2), (h3, v3), (h4, v4))):
        h = pick(h, 0, 3)
        info = {'container_input': True, 'src': src, 'step': step, 'h': h}
        if h == 0:
            v = pick(v, 0, len(CONT) - 1)
            nv = CONT[v]
            nv = dict(nv) if isinstance(nv, dict) else (list(nv) if isinstance(nv, list) else nv)
            n0 = len(seen)
            old = sorted(cur[0], key=repr)
            setv(nv)
            cur[0] = nv
            if sorted(nv, key=repr) != old:
                check('C09.watch_called', len(seen) > n0 and seen[-1] == sorted(nv, key=repr), dict(info, new=repr(nv)))
        elif h == 1:
            check('C09.value', e1.rx.value == sorted(cur[0], key=repr), dict(info, got=repr(e1.rx.value), exp=repr(sorted(cur[0], key=repr))))
        elif h == 2:
            check('C09.value', e2.rx.value == len(cur[0]), dict(info, got=e2.rx.value, exp=len(cur[0])))
        else:
            check('C09.value', e3.rx.value == ('c' in cur[0]), dict(info, got=e3.rx.value))
    info = {'container_input': True, 'src': src, 'step': 'final'}
    check('C09.value', e1.rx.value == sorted(cur[0], key=repr) and e2.rx.value == len(cur[0]) and e3.rx.value == ('c' in cur[0]), info)


contprog.ranges = lambda consts: dict(src=(0, 1), h1=(0, 3), h2=(0, 3), h3=(0, 3), h4=(0, 3),
                                      v1=(0, len(CONT) - 1), v2=(0, len(CONT) - 1), v3=(0, len(CONT) - 1), v4=(0, len(CONT) - 1))


class PAB(param.Parameterized):
    a = param.Integer(default=0)
    b = param.Integer(default=0)


def cbprog(route: int, v: int, w: int, second: bool) -> None:
    """A callback registered with .rx.watch on an expression over p.a assigns p.b and then reads expressions over p.b (and
    over both): the reads inside the callback, and every read afterwards, equal plain Python on the current inputs.
    The change of a arrives by plain assignment, param.update, update as a context, trigger, or at the exit of a batch."""
    from param.parameterized import batch_call_watchers
    route = pick(route, 0, 4)
    second = pickbool(second)
    with untraced():
        p = PAB()
    ea = p.param.a.rx() * 2
    eb = p.param.b.rx() + 1
    eab = p.param.a.rx() + p.param.b.rx()
    inside = []
    others = []

    def cb(val):
        p.b = w
        inside.append((val, eb.rx.value, eab.rx.value, p.a, p.b))
    ea.rx.watch(cb)
    if second:
        eab.rx.watch(lambda val: others.append((val, p.a + p.b)))
    assume(v != 0)
    if route == 0:
        p.a = v
    elif route == 1:
        p.param.update(a=v)
    elif route == 2:
        with p.param.update(a=v):
            pass
    elif route == 3:
        with untraced():
            pass
        p.a = v
        p.param.trigger('a')
    else:
        with batch_call_watchers(p):
            p.a = v
    info = {'callback_assigns': True, 'route': route, 'second_watcher': second}
    check('C09.watch_called', len(inside) >= 1, dict(info, calls=len(inside)))
    for val, ebv, eabv, pa, pb in inside:
        check('C09.value', ebv == pb + 1 and eabv == pa + pb, dict(info, inside_callback=True, eb=ebv, eab=eabv, a=pa, b=pb))
    for val, plain in others:
        check('C09.watch_called', val == plain, dict(info, delivered=val, plain=plain))
    check('C09.value', eb.rx.value == p.b + 1 and eab.rx.value == p.a + p.b and ea.rx.value == p.a * 2, dict(info, after=True))


cbprog.ranges = lambda consts: dict(route=(0, 4), v=(-3, 3), w=(-3, 3))


def discprog(v: int, w: int, nested: bool, disc: bool) -> None:
    """An input of an expression is updated inside discard_events(p) (events of p are dropped, the values stay): reading the
    expression afterwards still has to give what plain Python computes from the current inputs."""
    from param.parameterized import discard_events, batch_call_watchers
    nested, disc = pickbool(nested), pickbool(disc)
    with untraced():
        p = PAB()
    e = p.param.a.rx() * 2
    f = p.param.a.rx() + p.param.b.rx()
    e.rx.value
    f.rx.value
    assume(v != 0)
    if not disc:
        with batch_call_watchers(p):         # the same update in a plain batch, for comparison
            p.a = v
    elif nested:
        with batch_call_watchers(p):
            with discard_events(p):
                p.a = v
    else:
        with discard_events(p):
            p.a = v
    info = {'updated_inside_discard_events': disc, 'nested_in_batch': nested}
    check('C09.value', e.rx.value == p.a * 2 and f.rx.value == p.a + p.b, dict(info, e=e.rx.value, f=f.rx.value, a=p.a))
    p.b = w
    check('C09.value', f.rx.value == p.a + p.b, dict(info, after_other_update=True, f=f.rx.value, a=p.a, b=p.b))


discprog.ranges = lambda consts: dict(v=(-2, 2), w=(-2, 2))


def table(tier):
    """The operator forms exercised cover every __op__/__rop__ defined on rx (read from the class at run time)."""
    import param.reactive as R
    have = {n for n in vars(R.rx) if n.startswith('__') and n.endswith('__')}
    names = {'__%s__' % n for n, _ in BIN if n not in ('divmod', 'and', 'or')} | {'__and__', '__or__', '__divmod__'}
    names |= {'__r%s__' % n[2:-2] for n in names if n[2:-2] not in ('lt', 'le', 'gt', 'ge', 'eq', 'ne')}
    names |= {'__%s__' % n for n, _ in UN} | {'__getitem__'}
    arith = {n for n in have if n[2:-2].lstrip('r') in {m[2:-2].lstrip('r') for m in names} or n in names}
    skip = {'__matmul__', '__rmatmul__', '__rdiv__', '__contains_'}        # matmul: family G (own operand type)
    missing = sorted(n for n in have if (n.startswith('__r') or n in names) and n not in names and n not in skip
                     and n not in ('__repr__', '__reduce__', '__reduce_ex__', '__round__'))
    row = dict(name='operator_table', label='C09.table_complete', status='ok' if not missing else 'error',
               error='operator dunders of rx not exercised by the harness: %s' % missing, exercised=sorted(names), queries=0)
    absent = [n for n in REQUIRED if n not in have]
    if absent and not missing:
        row.update(status='violation', info=dict(absent=absent), label='C09.reflected_supported',
                   replay=dict(module='harness.c09', fn='replay_dunder', args=dict(name=absent[0]), label='C09.reflected_supported', property='C09'))
    return row


# every binary operator Python can dispatch to its right operand, and the forward forms
REQUIRED = ['__%s%s__' % (r, n) for n in ('add', 'sub', 'mul', 'matmul', 'truediv', 'floordiv', 'mod', 'divmod', 'pow', 'lshift', 'rshift',
                                          'and', 'xor', 'or') for r in ('', 'r')]


def replay_dunder(name):
    import param.reactive as R
    check('C09.reflected_supported', name in vars(R.rx), dict(absent=name))


class Mat:
    """an operand type that supports @ from both sides"""

    def __init__(self, v):
        self.v = v

    def __matmul__(self, o):
        if hasattr(type(o), 'rx'):
            return NotImplemented           # let Python dispatch to the reactive expression's reflected method
        return ('mm', self.v, getattr(o, 'v', o))

    def __rmatmul__(self, o):
        return ('rmm', getattr(o, 'v', o), self.v)


def matprog(side: int, a0: int, h1: int, v1: int, h2: int, v2: int, h3: int, v3: int) -> None:
    """e = root @ M, M @ root, 3 @ root (dispatches to rx.__rmatmul__) over a root holding a Mat; histories of updates / reads"""
    side = pick(side, 0, 2)
    a0 = pick(a0, 0, 2)
    r = rx(Mat(a0))
    m = Mat(7)
    b = _ev(lambda: (r @ m) if side == 0 else ((m @ r) if side == 1 else (3 @ r)))
    info = {'matmul': True, 'side': side}
    check('C09.reflected_supported' if side else 'C09.builds', b[0] == 'ok' and hasattr(b[1], 'rx'), dict(info, built=b[0], exc=b[1] if b[0] == 'exc' else None))
    e = b[1]
    cur = a0
    for h, v in ((h1, v1), (h2, v2), (h3, v3)):
        h = pick(h, 0, 1)
        if h == 0:
            v = pick(v, 0, 2)
            r.rx.value = Mat(v)
            cur = v
        else:
            exp = ('mm', cur, 7) if side == 0 else (('mm', 7, cur) if side == 1 else ('rmm', 3, cur))
            got = _ev(lambda: e.rx.value)
            check('C09.value', got == ('ok', exp), dict(info, got=repr(got), exp=repr(exp)))
    exp = ('mm', cur, 7) if side == 0 else (('mm', 7, cur) if side == 1 else ('rmm', 3, cur))
    check('C09.value', _ev(lambda: e.rx.value) == ('ok', exp), dict(info, final=True))


matprog.ranges = lambda consts: dict(side=(0, 2), a0=(0, 2), h1=(0, 1), h2=(0, 1), h3=(0, 1), v1=(0, 2), v2=(0, 2), v3=(0, 2))


def extra(tier):
    return [table(tier)]


def _ranges(consts):
    vr = consts['vr']
    return dict(op1=(0, N1 - 1), op2=(0, N1 - 1), xk=(0, 3), yk=(0, 3), a0=(-4, 4), q0=(-vr, vr), c=(0, 3),
                h1=consts.get('h1r', (0, 3)), h2=consts.get('h2r', (0, 3)), h3=consts.get('h3r', (0, 3)), h4=consts.get('h4r', (0, 3)), v4=(-4, 4), v1=(-4, 4), v2=(-4, 4), v3=(-4, 4))


prog.ranges = _ranges
# op2 choices used when op2 is not the subject of the shard
OP2_QUICK = [0, 3, 2 * len(BIN) + 0, 2 * len(BIN) + len(UN) + 0, 2 * len(BIN) + len(UN) + 9]      # add, truediv, neg, pipe, getitem


def shards(tier):
    out = []
    q = tier == 'quick'
    # (A) every operator form as op1; X constant or Parameter (thorough: all kinds)
    #     quick: histories [update root | update parameter, read e1]; thorough: all histories of length 3
    for op1 in range(N1):
        for xk in ((0, 1) if q else (0, 1, 2, 3)):
            c = dict(op1=op1, xk=xk, op2=0, yk=0, vr=1 if q else 2, watch=True)
            if q:
                c.update(k=2, h1r=(0, 1), h2r=(2, 2), h3=0, v3=0, h4=0, v4=0, q0=1, c=2)
            else:
                c.update(k=3, h4=0, v4=0)
            out.append(dict(name='A_op%d_x%d' % (op1, xk), module='harness.c09', fn='prog', consts=c, budget_s=45 if q else 300))
    # (B) derived expressions with late derivation: all histories of length 3
    ATTR = 2 * len(BIN) + len(UN) + 11          # e1 = root.real: an attribute-access node that is derived from and read again
    for op1 in ((0, 3, ATTR) if q else (0, 2, 3, len(BIN) + 3, ATTR)):
        for op2 in (OP2_QUICK if q else range(N1)):
            for xk in (1,) if q else (1, 2):
                for yk in ((1,) if q else (0, 1)):
                    c = dict(op1=op1, xk=xk, op2=op2, yk=yk, k=3, vr=1 if q else 2, h4=0, v4=0, watch=False)
                    if q:
                        c.update(a0=1, q0=1, c=2)
                    out.append(dict(name='B_%d_%d_x%dy%d' % (op1, op2, xk, yk), module='harness.c09', fn='prog', consts=c,
                                    budget_s=45 if q else 300))
    # (C) error and recovery through a non-root operand: histories of length 4 over {set parameter, read e1}
    for op1 in [3, 4, 5, len(BIN) + 3, len(BIN) + 7, 2 * len(BIN) + len(UN) + 9, N1 - 2, N1 - 1]:    # truediv floordiv mod rtruediv rlshift getitem where_lazy*
        for xk in (1, 2):
            c = dict(op1=op1, xk=xk, op2=0, yk=0, k=4, vr=1 if q else 2, watch=(xk == 2), h1r=(1, 2), h2r=(1, 2), h3r=(1, 2), h4r=(2, 2), a0=1, c=2)
            out.append(dict(name='C_op%d_x%d' % (op1, xk), module='harness.c09', fn='prog', consts=c, budget_s=45 if q else 300))
    # (D) expressions over the result of .rx.where with a reactive branch
    for form in (0, 1):
        for h1 in range(5):
            out.append(dict(name='D_f%d_h%d' % (form, h1), module='harness.c09', fn='whereprog', consts=dict(form=form, h1=h1),
                            budget_s=25 if q else 300))
    # (F) a .rx.watch callback that assigns another input
    for route in range(5):
        out.append(dict(name='F_r%d' % route, module='harness.c09', fn='cbprog', consts=dict(route=route), budget_s=45 if q else 300))
    # (G) the @ operator with an operand type that supports it from both sides
    for side in range(3):
        out.append(dict(name='G_s%d' % side, module='harness.c09', fn='matprog', consts=dict(side=side), budget_s=30 if q else 120))
    # (H) an input updated inside discard_events
    out.append(dict(name='H_discard', module='harness.c09', fn='discprog', consts={}, budget_s=30 if q else 120))
    # (E) container-valued inputs
    for src in (0, 1):
        for v1 in range(len(CONT)):
            out.append(dict(name='E_s%d_v%d' % (src, v1), module='harness.c09', fn='contprog', consts=dict(src=src, h1=0, v1=v1),
                            budget_s=20 if q else 300))
    return out


def bounds(tier):
    q = tier == 'quick'
    return dict(operator_forms=N1, root='symbolic in [-4,4] for linear operators, realised from a small range for non-linear ones',
                value_range_for_realised_inputs='[-1,1]' if q else '[-2,2]',
                family_A='every operator form x operand kind; histories: ' + ('[update, read]' if q else 'all of length 3'),
                family_D='expressions over the result of .rx.where (chain rooted at it; as a non-root operand): all histories of length 4 over {set branch, set condition, set other root, read e1, read e2}',
                family_E='container-valued inputs (same-size dicts with renamed keys / changed values / reordered, lists, tuples, sets) through an rx root or a Parameter: histories of length 4 over {set input, read sorted keys, read len, read membership}',
                family_F='a .rx.watch callback assigns another input and reads expressions over it; the triggering change arrives by set / update / update context / trigger / batch exit',
                family_H='an input updated inside discard_events (optionally inside a batch), then read',
                family_C='error/recovery through a non-root operand: histories of length 4 over {set parameter, read e1}',
                family_B='derived expression e2 = op2(e1, Y) built at a symbolic point; all histories of length 3',
                history_ops=['set root', 'set parameter operand', 'read e1', 'derive (first time) and read e2'],
                operand_kinds=['constant', 'Parameter', 'bind function', 'the root itself'])
