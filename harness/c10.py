"""C10 - the latest assignment wins under every asynchronous completion order.
Symbolic: kind of each of N assignments (coroutine function / async generator / plain value), completion order of the
pending hand-made futures, interleaving; a fresh asyncio event loop per path."""
import asyncio

import param
from param import rx
from sx.api import assume, check, cover, untraced, pick, pickbool

PROPERTY = 'C10'
LABELS = ['C10.reeval_latest', 'C10.typed_latest', 'C10.rxgen_latest', 'C10.final_latest', 'C10.no_stale_after_newer', 'C10.plain_cancels', 'C10.rx_latest', 'C10.rx_no_stale']
EXPLANATION = ("Harness c10.prog: N<=3 assignments to an allow_refs parameter, each a coroutine function, a two-value async "
               "generator or a plain value (symbolic kinds, the same function object may be assigned twice), the pending hand-made "
               "futures are then resolved in a solver-chosen order; harness c10.rxprog: an rx pipeline through a coroutine with 2-3 "
               "root updates and a solver-chosen completion order. After everything completed the parameter / expression holds "
               "the result of the latest assignment and the watcher never saw a superseded result after a newer one.")
STUBS = ["the event loop is a real asyncio loop (fresh per path); awaitables are futures resolved by the harness; "
         "param.parameterized.async_executor is asyncio-based (param's default when a loop is running)"]
OUTSIDE = ["synchronous generators (threads)", "real timers", "more than 3 assignments / 4 completion steps"]
ASSUMPTIONS = ["completion choices index into the list of still-pending futures; a generator's second future is only resolved after its first"]


class P(param.Parameterized):
    x = param.Parameter(default=None, allow_refs=True)


class PI(param.Parameterized):
    n = param.Integer(default=0, allow_refs=True)


def prog(n: int, k1: int, k2: int, k3: int, same: bool, gap: bool, c1: int, c2: int, c3: int, c4: int, c5: int) -> None:
    kinds = [pick(k, 0, 3) for k in (k1, k2, k3)][:n]
    with untraced():
        sync_srcs = [Src(v=1000), Src(v=1001), Src(v=1002)]
    same = pickbool(same)
    gap = pickbool(gap)
    with untraced():
        p = P()
    seen = []
    p.param.watch(lambda e: seen.append(e.new), 'x', onlychanged=False)
    state = {}

    async def main():
        loop = asyncio.get_running_loop()
        futs = []          # (assignment index, slot, future)
        shared = {}

        def mk(i, kind):
            if kind == 0:
                if same and 'co' in shared:
                    # the identical function object assigned again: its next call awaits a new future
                    shared['idx'].append(i)
                    return shared['co']
                idxs = [i]
                calls = []

                async def co():
                    j = idxs[len(calls)] if len(calls) < len(idxs) else idxs[-1]
                    f = loop.create_future()
                    calls.append(f)
                    futs.append((j, 0, f))
                    return await f
                if same:
                    shared['co'] = co
                    shared['idx'] = idxs
                return co
            if kind == 1:
                f1 = loop.create_future()
                f2 = loop.create_future()
                futs.append((i, 0, f1))
                futs.append((i, 1, f2))

                async def ag():
                    yield await f1
                    yield await f2
                return ag
            if kind == 3:
                return sync_srcs[i].param.v       # a synchronous reference supersedes whatever is pending
            return ('plain', i)
        for i, kind in enumerate(kinds):
            p.x = mk(i, kind)
            if gap:      # without a gap the next assignment is made before the task of this one has started
                for _ in range(3):
                    await asyncio.sleep(0)
        for _ in range(3):
            await asyncio.sleep(0)
        # resolve pending futures in a solver-chosen order
        for c in (c1, c2, c3, c4, c5):
            pend = [t for t in futs if not t[2].done()]
            if not pend:
                break
            assume(0 <= c < len(pend))
            c = pick(c, 0, len(pend) - 1)
            i, slot, f = pend[c]
            # a generator's second future only after its first
            assume(slot == 0 or all(g.done() for (j, s, g) in futs if j == i and s == 0))
            f.set_result(('res', i, slot))
            for _ in range(5):
                await asyncio.sleep(0)
        assume(all(f.done() for (_, _, f) in futs))
        for _ in range(5):
            await asyncio.sleep(0)
    loop = asyncio.new_event_loop()
    try:
        loop.run_until_complete(main())
    finally:
        loop.close()
    last = kinds[-1]
    li = len(kinds) - 1
    exp = ('plain', li) if last == 2 else (('res', li, 0) if last == 0 else (('res', li, 1) if last == 1 else 1000 + li))
    info = {'kinds': list(kinds), 'same': same, 'gap': gap, 'x': repr(p.x), 'exp': repr(exp), 'seen': repr(seen)}
    check('C10.plain_cancels' if last == 2 else 'C10.final_latest', p.x == exp, info)
    # once the watcher saw anything belonging to the latest assignment, nothing older may follow
    idx = [(v[1] if isinstance(v, tuple) and len(v) >= 2 else ((v - 1000) if isinstance(v, int) and v >= 1000 else -1)) for v in seen]
    firstlatest = None
    for pos, j in enumerate(idx):
        if j == li and firstlatest is None:
            firstlatest = pos
    if firstlatest is not None:
        check('C10.no_stale_after_newer', all(j == li or j == -1 for j in idx[firstlatest:]), info)
    else:
        check('C10.no_stale_after_newer', True)


prog.ranges = lambda consts: dict(k1=(0, 3), k2=(0, 3), k3=(0, 3), c1=(0, 5), c2=(0, 5), c3=(0, 5), c4=(0, 5), c5=(0, 5))


def typed(o1: int, o2: int, o3: int, o4: int, o5: int, c1: int, c2: int, c3: int, c4: int, c5: int) -> None:
    """Integer parameter driven by coroutines; an async result may be invalid for the parameter (rejected inside the task).
    Steps: 0 assign a coroutine delivering a valid int, 1 assign a coroutine delivering an invalid value, 2 assign a plain
    value, 3 complete the c-th pending future; remaining futures are completed at the end in index order."""
    with untraced():
        p = PI()
    state = {'last': None}

    async def main():
        loop = asyncio.get_running_loop()
        futs = []
        nassign = 0

        def mk(i, kind):
            if kind == 2:
                return 100 + i
            f = loop.create_future()
            futs.append((i, kind, f))

            async def co():
                return await f
            return co
        for o, c in ((o1, c1), (o2, c2), (o3, c3), (o4, c4), (o5, c5)):
            o = pick(o, 0, 3)
            if o == 3:
                pend = [t for t in futs if not t[2].done()]
                assume(len(pend) > 0 and 0 <= c < len(pend))
                c = pick(c, 0, len(pend) - 1)
                i, kind, f = pend[c]
                f.set_result((10 + i) if kind == 0 else 'bad')
            else:
                assume(nassign < 3)
                p.n = mk(nassign, o)
                state['last'] = (nassign, o)
                nassign += 1
            for _ in range(5):
                await asyncio.sleep(0)
        for (i, kind, f) in futs:
            if not f.done():
                f.set_result((10 + i) if kind == 0 else 'bad')
                for _ in range(5):
                    await asyncio.sleep(0)
        for _ in range(5):
            await asyncio.sleep(0)
    loop = asyncio.new_event_loop()
    loop.set_exception_handler(lambda l, c: None)      # a rejected async result is reported to the loop's handler
    try:
        loop.run_until_complete(main())
    finally:
        loop.close()
    assume(state['last'] is not None)
    i, kind = state['last']
    info = {'last': [i, kind], 'n': p.n}
    if kind == 2:
        check('C10.typed_latest', p.n == 100 + i, info)
    elif kind == 0:
        check('C10.typed_latest', p.n == 10 + i, info)
    else:
        check('C10.typed_latest', True)      # the latest reference delivered an invalid value: nothing to hold


typed.ranges = lambda consts: dict(o1=(0, 2), o2=(0, 3), o3=(0, 3), o4=(0, 3), o5=(0, 3), c1=(0, 2), c2=(0, 2), c3=(0, 2), c4=(0, 2), c5=(0, 2))


class Src(param.Parameterized):
    v = param.Integer(default=0)


def deprog(nup: int, plain: bool, c1: int, c2: int, c3: int) -> None:
    """An async reference with a dependency: x = coroutine function depending on src.v; every source update re-evaluates it
    (a new awaitable per evaluation); optionally a plain value is assigned last; completions in a solver-chosen order."""
    nup = pick(nup, 0, 2)
    plain = pickbool(plain)
    with untraced():
        p = P()
        src = Src()

    async def main():
        loop = asyncio.get_running_loop()
        futs = []

        @param.depends(src.param.v)
        async def f(v):
            fu = loop.create_future()
            futs.append((v, fu))
            return await fu
        p.x = f
        for _ in range(4):
            await asyncio.sleep(0)
        for j in range(nup):
            src.v = j + 1
            for _ in range(4):
                await asyncio.sleep(0)
        if plain:
            p.x = 'plain'
            for _ in range(4):
                await asyncio.sleep(0)
        for c in (c1, c2, c3):
            pend = [t for t in futs if not t[1].done()]
            if not pend:
                break
            assume(0 <= c < len(pend))
            c = pick(c, 0, len(pend) - 1)
            v, fu = pend[c]
            fu.set_result(('res', v))
            for _ in range(5):
                await asyncio.sleep(0)
        assume(all(fu.done() for _, fu in futs))
        for _ in range(5):
            await asyncio.sleep(0)
    loop = asyncio.new_event_loop()
    try:
        loop.run_until_complete(main())
    finally:
        loop.close()
    info = {'source_updates': nup, 'plain_last': plain, 'x': repr(p.x)}
    if plain:
        check('C10.reeval_latest', p.x == 'plain', info)
    else:
        check('C10.reeval_latest', p.x == ('res', nup), info)


deprog.ranges = lambda consts: dict(nup=(0, 2), c1=(0, 2), c2=(0, 2), c3=(0, 2))


def rxgen(c1: int, c2: int, c3: int) -> None:
    """rx pipeline through an async generator (two items per input); a newer input arrives while the old generator is
    suspended before its second item; the remaining three items arrive in a solver-chosen order."""
    state = {}

    async def main():
        loop = asyncio.get_running_loop()
        gates = {}

        def gate(v, k):
            if (v, k) not in gates:
                gates[(v, k)] = loop.create_future()
            return gates[(v, k)]

        async def stream(v):
            for k in range(2):
                yield await asyncio.shield(gate(v, k))
        src = rx(0)
        out = src.rx.pipe(stream)
        seen = []
        out.rx.watch(seen.append)
        out.rx.value
        for _ in range(8):
            await asyncio.sleep(0)
        gate(0, 0).set_result('in0-item0')
        for _ in range(8):
            await asyncio.sleep(0)
        src.rx.value = 1
        out.rx.value
        for _ in range(8):
            await asyncio.sleep(0)
        rest = [(0, 1), (1, 0), (1, 1)]
        for c in (c1, c2, c3):
            pend = [g for g in rest if not gate(*g).done()]
            if not pend:
                break
            assume(0 <= c < len(pend))
            c = pick(c, 0, len(pend) - 1)
            v, k = pend[c]
            assume(k == 0 or gate(v, 0).done())
            gate(v, k).set_result('in%d-item%d' % (v, k))
            for _ in range(8):
                await asyncio.sleep(0)
        assume(all(gate(*g).done() for g in rest))
        state['final'] = out.rx.value
        state['seen'] = [x for x in seen if isinstance(x, str)]
    loop = asyncio.new_event_loop()
    try:
        loop.run_until_complete(main())
    finally:
        loop.close()
    check('C10.rxgen_latest', state['final'] == 'in1-item1', {'final': repr(state['final']), 'seen': repr(state['seen'])})


rxgen.ranges = lambda consts: dict(c1=(0, 2), c2=(0, 2), c3=(0, 2))


def rxarg(watch: bool, read_between: bool, c1: int, c2: int, c3: int, rd1: bool = True, rd2: bool = True, rd3: bool = True) -> None:
    """out = base.rx.pipe(f, arg): the reassigned input is an *argument* of the piped coroutine; pull path (no watcher)
    or push path; completions in a solver-chosen order."""
    watch, read_between = pickbool(watch), pickbool(read_between)
    rds = (pickbool(rd1), pickbool(rd2), pickbool(rd3))
    state = {}

    async def main():
        loop = asyncio.get_running_loop()
        gates = []

        async def f(base, v):
            fu = loop.create_future()
            gates.append((v, fu))
            await fu
            return ('res', base, v)
        base, arg = rx(100), rx(0)
        out = base.rx.pipe(f, arg)
        if watch:
            out.rx.watch(lambda v: None)
        out.rx.value
        for _ in range(8):
            await asyncio.sleep(0)
        for v in (1, 2):
            arg.rx.value = v
            if read_between:
                out.rx.value
            for _ in range(8):
                await asyncio.sleep(0)
        for c, rd in zip((c1, c2, c3), rds):
            if rd:                # the expression is (or is not) read between two completions
                out.rx.value
            for _ in range(4):
                await asyncio.sleep(0)
            pend = [g for g in gates if not g[1].done()]
            if not pend:
                break
            assume(0 <= c < len(pend))
            c = pick(c, 0, len(pend) - 1)
            pend[c][1].set_result(None)
            for _ in range(8):
                await asyncio.sleep(0)
        for _ in range(3):        # let whatever is (or becomes) pending run to completion
            out.rx.value
            for _ in range(6):
                await asyncio.sleep(0)
            for g in gates:
                if not g[1].done():
                    g[1].set_result(None)
            for _ in range(6):
                await asyncio.sleep(0)
        state['final'] = out.rx.value
    loop = asyncio.new_event_loop()
    try:
        loop.run_until_complete(main())
    finally:
        loop.close()
    check('C10.rx_latest', state['final'] == ('res', 100, 2), {'final': repr(state['final']), 'watch': watch, 'read_between': read_between})


rxarg.ranges = lambda consts: dict(c1=(0, 2), c2=(0, 2), c3=(0, 2))


def rx2(watch: bool, n: int, c1: int, c2: int, c3: int, c4: int, rd1: bool, rd2: bool, rd3: bool, rd4: bool) -> None:
    """out = src.rx.pipe(f).rx.pipe(g) with both stages gated; n root updates (each optionally followed by a read);
    completions in a solver-chosen order with or without a read in between; at the end everything is released."""
    watch = pickbool(watch)
    rds = (pickbool(rd1), pickbool(rd2), pickbool(rd3), pickbool(rd4))
    state = {}

    async def main():
        loop = asyncio.get_running_loop()
        gates = []

        async def f(v):
            fu = loop.create_future()
            gates.append(fu)
            await fu
            return v * 10

        async def g(v):
            fu = loop.create_future()
            gates.append(fu)
            await fu
            return ('g', v)
        src = rx(1)
        out = src.rx.pipe(f).rx.pipe(g)
        if watch:
            out.rx.watch(lambda v: None)
        out.rx.value
        for _ in range(6):
            await asyncio.sleep(0)
        j = 1
        for c, rd in zip((c1, c2, c3, c4), rds):
            pend = [x for x in gates if not x.done()]
            assume(0 <= c <= len(pend))
            c = pick(c, 0, len(pend))
            if c == len(pend):
                if j >= n:
                    continue
                j += 1
                src.rx.value = j          # step = reassign the root
            else:
                pend[c].set_result(None)  # step = complete one suspended stage
            for _ in range(6):
                await asyncio.sleep(0)
            if rd:
                out.rx.value
                for _ in range(6):
                    await asyncio.sleep(0)
        for _ in range(4):        # let whatever is (or becomes) pending run to completion
            out.rx.value
            for _ in range(6):
                await asyncio.sleep(0)
            for x in gates:
                if not x.done():
                    x.set_result(None)
            for _ in range(6):
                await asyncio.sleep(0)
        state['final'] = out.rx.value
        state['j'] = j
    loop = asyncio.new_event_loop()
    try:
        loop.run_until_complete(main())
    finally:
        loop.close()
    check('C10.rx_latest', state['final'] == ('g', state['j'] * 10), {'final': repr(state['final']), 'watch': watch, 'updates': state['j']})


rx2.ranges = lambda consts: dict(c1=(0, 3), c2=(0, 3), c3=(0, 3), c4=(0, 3))


def rxmap(n: int, c1: int, c2: int, c3: int, c4: int, upd: bool) -> None:
    """out = rx([4, 5, 6]).rx.map(slow) with a gated coroutine: the calls complete in a solver-chosen order; optionally the
    collection is replaced while calls are pending.  The expression ends up with the results in input order for the
    most recent collection."""
    upd = pickbool(upd)
    state = {}

    async def main():
        loop = asyncio.get_running_loop()
        gates = []

        async def slow(v):
            f = loop.create_future()
            gates.append((v, f))
            await f
            return v * 10
        src = rx([4, 5, 6][:n])
        out = src.rx.map(slow)
        out.rx.watch(lambda v: None)
        out.rx.value
        for _ in range(6):
            await asyncio.sleep(0)
        cur = [4, 5, 6][:n]
        for step, c in enumerate((c1, c2, c3, c4)):
            if upd and step == 1:
                cur = [7, 8]
                src.rx.value = list(cur)
                for _ in range(6):
                    await asyncio.sleep(0)
            pend = [g for g in gates if not g[1].done()]
            if not pend:
                break
            assume(0 <= c < len(pend))
            c = pick(c, 0, len(pend) - 1)
            pend[c][1].set_result(None)
            for _ in range(8):
                await asyncio.sleep(0)
        for _ in range(3):
            for g in gates:
                if not g[1].done():
                    g[1].set_result(None)
            for _ in range(8):
                await asyncio.sleep(0)
        state['final'] = out.rx.value
        state['exp'] = [v * 10 for v in cur]
    loop = asyncio.new_event_loop()
    try:
        loop.run_until_complete(main())
    finally:
        loop.close()
    check('C10.rx_latest', state['final'] == state['exp'], {'map': True, 'final': repr(state['final']), 'exp': repr(state['exp']), 'replaced': upd})


rxmap.ranges = lambda consts: dict(c1=(0, 2), c2=(0, 2), c3=(0, 2), c4=(0, 2))


def noloop(k1: int, k2: int, k3: int, n: int) -> None:
    """No event loop is running: an awaitable handed to the parameter is evaluated to completion during the assignment
    itself, so after every assignment the parameter holds the result of the latest one (coroutine function, two-value
    async generator function or plain value)."""
    with untraced():
        p = P()
    exp = None
    for step, k in enumerate((k1, k2, k3)[:n]):
        k = pick(k, 0, 2)
        tag = 'v%d' % step
        if k == 0:
            async def coro(tag=tag):
                return tag + 'c'
            p.x = coro
            exp = tag + 'c'
        elif k == 1:
            async def gen(tag=tag):
                yield tag + 'g0'
                yield tag + 'g1'
            p.x = gen
            exp = tag + 'g1'
        else:
            p.x = tag + 'p'
            exp = tag + 'p'
        check('C10.reeval_latest', p.x == exp, {'no_event_loop': True, 'step': step, 'kind': k, 'got': repr(p.x), 'exp': exp})


noloop.ranges = lambda consts: dict(k1=(0, 2), k2=(0, 2), k3=(0, 2))


def ctxasync(kind: int, inside: bool, route: int) -> None:
    """`with p.param.update(x=<coroutine function | async generator function>)`: leaving the block restores the previous plain
    value, which cancels the reference for good - also when the awaitable is still pending at that moment."""
    kind = pick(kind, 0, 1)
    inside = pickbool(inside)
    route = pick(route, 0, 1)
    state = {}

    async def main():
        loop = asyncio.get_running_loop()
        gates = []

        async def coro():
            f = loop.create_future()
            gates.append(f)
            await f
            return 'late'

        async def gen():
            f = loop.create_future()
            gates.append(f)
            await f
            yield 'late0'
            yield 'late1'
        with untraced():
            p = P()
        p.x = 'base'
        ref = coro if kind == 0 else gen
        ctx = p.param.update(x=ref) if route == 0 else p.param.update({'x': ref})
        with ctx:
            for _ in range(5):
                await asyncio.sleep(0)
            if inside:
                for g in gates:
                    if not g.done():
                        g.set_result(None)
                for _ in range(8):
                    await asyncio.sleep(0)
            state['inside'] = p.x
        state['after_exit'] = p.x
        for g in gates:
            if not g.done():
                g.set_result(None)
        for _ in range(8):
            await asyncio.sleep(0)
        state['final'] = p.x
        state['refs'] = len(p._param__private.refs)
    loop = asyncio.new_event_loop()
    try:
        loop.run_until_complete(main())
    finally:
        loop.close()
    info = {'update_context_with_async_reference': True, 'kind': kind, 'completed_inside': inside, 'route': route}
    check('C10.plain_cancels', state['after_exit'] == 'base' and state['final'] == 'base' and state['refs'] == 0,
          dict(info, after_exit=repr(state['after_exit']), final=repr(state['final']), refs=state['refs']))


def rxprog(n: int, c1: int, c2: int, c3: int, b1: bool = False, b2: bool = False, b3: bool = False) -> None:
    """src = rx(1); out = src.rx.pipe(slow); n-1 further root updates; completions in a solver-chosen order."""
    state = {}

    async def main():
        loop = asyncio.get_running_loop()
        gates = []

        async def slow(v):
            f = loop.create_future()
            gates.append((v, f))
            return await f
        src = rx(1)
        out = src.rx.pipe(slow)
        published = []
        out.rx.watch(lambda v: published.append(v))
        out.rx.value
        for _ in range(5):
            await asyncio.sleep(0)
        for j in range(2, n + 1):
            src.rx.value = j
            for _ in range(5):
                await asyncio.sleep(0)
        for c, bad in zip((c1, c2, c3), (b1, b2, b3)):
            pend = [g for g in gates if not g[1].done()]
            if not pend:
                break
            assume(0 <= c < len(pend))
            c = pick(c, 0, len(pend) - 1)
            v, f = pend[c]
            if v != n and pickbool(bad):
                f.set_exception(ValueError('superseded evaluation fails'))     # only evaluations for older inputs may fail
            else:
                f.set_result('result%d' % v)
            for _ in range(8):
                await asyncio.sleep(0)
        assume(all(f.done() for _, f in gates))
        try:
            state['final'] = out.rx.value
        except Exception as e:      # noqa
            state['final'] = 'raised %s' % type(e).__name__
        state['published'] = [x for x in published if isinstance(x, str)]
        state['ngates'] = len(gates)
    loop = asyncio.new_event_loop()
    try:
        loop.run_until_complete(main())
    finally:
        loop.close()
    info = {'n': n, 'final': repr(state['final']), 'published': repr(state['published']), 'gates': state['ngates']}
    check('C10.rx_latest', state['final'] == 'result%d' % n, info)
    pub = state['published']
    if ('result%d' % n) in pub:
        check('C10.rx_no_stale', pub[-1] == 'result%d' % n, info)
    else:
        check('C10.rx_no_stale', True)


rxprog.ranges = lambda consts: dict(c1=(0, 2), c2=(0, 2), c3=(0, 2))


def shards(tier):
    out = []
    q = tier == 'quick'
    for n in (2, 3):
        for k1 in range(4):
            for same in (False, True):
                c = dict(n=n, k1=k1, same=same)
                if n < 3:
                    c.update(k3=0)
                out.append(dict(name='n%d_k%d_s%d' % (n, k1, same), module='harness.c10', fn='prog', consts=c,
                                budget_s=60 if q else 300))
    for o1 in range(3):
        for o2 in range(4):
            out.append(dict(name='typed_%d%d' % (o1, o2), module='harness.c10', fn='typed', consts=dict(o1=o1, o2=o2, c1=0),
                            budget_s=60 if q else 300))
    for plain in (False, True):
        out.append(dict(name='deprog_%d' % plain, module='harness.c10', fn='deprog', consts=dict(plain=plain), budget_s=60 if q else 300))
    for watch in (False, True):
        out.append(dict(name='rxarg_%d' % watch, module='harness.c10', fn='rxarg', consts=dict(watch=watch), budget_s=60 if q else 300))
        out.append(dict(name='rx2_%d' % watch, module='harness.c10', fn='rx2', consts=dict(watch=watch, n=3), budget_s=60 if q else 300))
    for n in (2, 3):
        out.append(dict(name='rxmap_n%d' % n, module='harness.c10', fn='rxmap', consts=dict(n=n), budget_s=60 if q else 300))
    out.append(dict(name='ctxasync', module='harness.c10', fn='ctxasync', consts={}, budget_s=60 if q else 300))
    out.append(dict(name='noloop', module='harness.c10', fn='noloop', consts=dict(n=3), budget_s=60 if q else 300))
    out.append(dict(name='rxgen', module='harness.c10', fn='rxgen', consts={}, budget_s=60 if q else 300))
    for n in (2, 3):
        out.append(dict(name='rx_n%d' % n, module='harness.c10', fn='rxprog', consts=dict(n=n), budget_s=60 if q else 300))
    return out


def bounds(tier):
    return dict(assignments='2 and 3', kinds=['coroutine function', 'two-value async generator', 'plain value'],
                completion_steps=5, same_function_object_reassigned=[False, True], rx_pipeline_updates='2 and 3', rx_two_stage_steps=4, reads_between_completions='symbolic', without_event_loop='3 assignments of symbolic kind', rx_map='2 and 3 items, completion order symbolic, optional replacement of the collection')
