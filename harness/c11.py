"""C11 - Parameter attributes inherit along the MRO; merged defaults are re-validated.
Symbolic: per declaring level a 'specified?' flag and a value for each attribute; concrete (shard): hierarchy shape,
type change variant, creation route."""
import param
from sx.api import assume, check, cover, untraced, pick, pickbool

PROPERTY = 'C11'
LABELS = ['C11.base_creates', 'C11.creation_iff_invalid', 'C11.slot_nearest', 'C11.instantiate_inherited',
          'C11.allow_None_recomputed', 'C11.none_default_on_type_change', 'C11.no_class_with_invalid_default']
EXPLANATION = ("Harness c11.prog: hierarchies (A>B, A>M>B with M not declaring, diamond A>(L,R)>J) in which each declaring level "
               "specifies a symbolic subset of {default, bounds, allow_None, instantiate, constant, doc, precedence, label} with "
               "symbolic values, optionally changing the Parameter type along the chain (Number>Integer, Parameter>Integer), created "
               "by a class statement or by add_parameter; the resulting Parameter is compared slot by slot with an independent MRO "
               "resolver and class creation must fail exactly when the merged non-None default violates the merged bounds/type.")
EXPLANATION += (" Harness c11.flags: constant / readonly specified in symbolic subsets over three declaring levels (with a skipping "
                "class, class statement or add_parameter): each is inherited independently of the other.")
EXPLANATION += (" Harness c11.rngstep: a Range redeclared with a symbolic subset of {step, bounds, softbounds} under an inherited "
                "default: creation fails exactly when the inherited default violates the merged step direction or bounds.")
EXPLANATION += (" Harness c11.root: a first declaration (no ancestor declares the Parameter; class statement, add_parameter, or a "
                "subclass of classes that skip it) of Integer / List / Tuple / NumericTuple / String with or without an explicit "
                "default and with symbolic bounds / length / regex choice: whenever the class comes into existence its non-None "
                "default satisfies its own constraints (the type's default is the 'merged default' here), and a second level "
                "that only narrows the constraint fails exactly when the inherited default violates it.")
STUBS = []
OUTSIDE = ["Parameter types other than Parameter/Number/Integer (slot merge) and Integer/List/Tuple/NumericTuple/String (root declarations)", "more than 3 declaring levels", "computed (callable) slot defaults other "
           "than those of these types", "whether constant=True forces instantiate (not asserted)"]
ASSUMPTIONS = ["each Parameter constructs on its own (its own declared/default `default` satisfies its own declared bounds)",
               "lo <= hi for declared bounds"]
ATTRS = ['default', 'bounds', 'allow_None', 'instantiate', 'constant', 'doc', 'precedence', 'label']
TYPE_DEFAULTS = dict(default=0, bounds=None, allow_None=False, instantiate=False, constant=False, doc=None, precedence=None, label=None)
SHAPES = ['A>B', 'A>M>B', 'diamond A>(L,R)>J', 'B(G, A) with G declaring a more general type',
          'A>M>B with A: Parameter(None), M: Integer(None, allow_None=True)']
TCS = ['same type', 'Number>Integer', 'Parameter(default=None)>Integer']
ROUTES = ['class statement', 'add_parameter']


def _kw(flags, d, lo, hi, n, i, c, p, tag, nattr):
    k = {}
    sd, sb, sn, si, sc, sdoc, sp, sl = flags
    if pickbool(sd):
        k['default'] = d
    if pickbool(sb):
        assume(lo <= hi)
        k['bounds'] = (lo, hi)
    if nattr > 4:
        if pickbool(sn):
            k['allow_None'] = pickbool(n)
        if pickbool(sc):
            k['constant'] = pickbool(c)
        if pickbool(sp):
            k['precedence'] = p
        if pickbool(sl):
            k['label'] = 'label' + tag
    if pickbool(si):
        k['instantiate'] = pickbool(i)
    if pickbool(sdoc):
        k['doc'] = 'doc' + tag
    return k


def _valid(d, b, inc=(True, True)):
    if d is None or b is None:
        return True
    lo_ok = b[0] is None or (b[0] <= d if inc[0] else b[0] < d)
    hi_ok = b[1] is None or (d <= b[1] if inc[1] else d < b[1])
    return lo_ok and hi_ok


def prog(shape: int, tc: int, route: int, nattr: int, s2inc: bool, inc_lo2: bool, inc_hi2: bool,
         s1d: bool, d1: int, s1b: bool, lo1: int, hi1: int, s1n: bool, n1: bool, s1i: bool, i1: bool, s1c: bool, c1: bool,
         s1doc: bool, s1p: bool, p1: int, s1l: bool,
         s2d: bool, d2: int, s2b: bool, lo2: int, hi2: int, s2n: bool, n2: bool, s2i: bool, i2: bool, s2c: bool, c2: bool,
         s2doc: bool, s2p: bool, p2: int, s2l: bool,
         sld: bool, dl: int, slb: bool, lol: int, hil: int) -> None:
    k1 = _kw((s1d, s1b, s1n, s1i, s1c, s1doc, s1p, s1l), d1, lo1, hi1, n1, i1, c1, p1, '1', nattr)
    k2 = _kw((s2d, s2b, s2n, s2i, s2c, s2doc, s2p, s2l), d2, lo2, hi2, n2, i2, c2, p2, '2', nattr)
    if pickbool(s2inc):
        k2['inclusive_bounds'] = (pickbool(inc_lo2), pickbool(inc_hi2))
    kl = {}
    if shape == 2:
        if pickbool(sld):
            kl['default'] = dl
        if pickbool(slb):
            assume(lol <= hil)
            kl['bounds'] = (lol, hil)
    T1 = [param.Integer, param.Number, param.Parameter][tc]
    if tc == 2:
        k1 = {a: v for a, v in k1.items() if a not in ('bounds', 'default')}
        k1['default'] = None
    # each Parameter must construct on its own (documented precondition of declaring it)
    try:
        pa = T1(**k1)
        pb = param.Integer(**k2)
        pl = param.Integer(**kl) if shape == 2 else None
    except (ValueError, TypeError):
        assume(False)
    try:
        class A(param.Parameterized):
            x = pa
        okA = True
    except Exception:
        okA = False
    check('C11.base_creates', okA, {'k1': repr(k1)})
    levels = [k2]            # nearest first
    if shape == 4:
        class M(A):
            x = param.Integer(default=None, allow_None=True)
        Base = (M,)
        levels.append({'default': None, 'allow_None': True})      # what M itself specifies; the rest is held from A
    elif shape == 3:
        class G(param.Parameterized):
            x = param.Parameter(default=None) if tc == 2 else param.Number(default=1)
        Base = (G, A)
        # G holds a concrete value for every attribute (its own declaration or its type's defaults): A is never consulted
        levels.append(dict(TYPE_DEFAULTS, default=None if tc == 2 else 1))
    elif shape == 0:
        Base = (A,)
    elif shape == 1:
        class M(A):
            pass
        Base = (M,)
    else:
        try:
            class L(A):
                x = pl
        except Exception:
            assume(False)        # the intermediate level is itself inconsistent: not the subject here

        class R(A):
            pass
        Base = (R, L)
        levels.append(kl)
    if shape != 3:
        levels.append(k1)
    merged = {}
    for a in ATTRS:
        merged[a] = TYPE_DEFAULTS[a]
        if a == 'default' and shape not in (3, 4):
            merged[a] = [0, 0.0, None][tc]      # the value held by the root-most declaring class is its own type's default
        for lv in levels:
            if a in lv:
                merged[a] = lv[a]
                break
    exp_inst = any(lv.get('instantiate', False) is True for lv in levels + [k1])
    info = {'shape': SHAPES[shape], 'type_change': TCS[tc], 'route': ROUTES[route], 'k1': repr(k1), 'k2': repr(k2), 'kl': repr(kl)}
    try:
        if route == 0:
            class B(*Base):
                x = pb
        else:
            class B(*Base):
                pass
            B.param.add_parameter('x', pb)
        okB = True
    except Exception:
        okB = False
    if route == 1 and not okB:
        # a rejected add_parameter must not leave the class with the rejected Parameter: whatever B.x is now, its non-None
        # default satisfies its own bounds and type
        px = B.param.x
        dd = px.default
        okd = dd is None or (isinstance(dd, (int, float)) and _valid(dd, getattr(px, 'bounds', None), getattr(px, 'inclusive_bounds', (True, True)))
                             and (not isinstance(px, param.Integer) or (isinstance(dd, int))))
        check('C11.no_class_with_invalid_default', okd, dict(info, after_rejected_add_parameter=True, default=repr(dd), bounds=repr(getattr(px, 'bounds', None))))
    d = merged['default']
    own_allow_none = k2.get('allow_None', False) or ('default' in k2 and k2['default'] is None)
    if d is None:
        # a merged default of None is re-checked only if the Parameter type changed along the way
        bad = (tc != 0 or shape in (3, 4)) and not own_allow_none
        check('C11.none_default_on_type_change', okB == (not bad), dict(info, created=okB))
    else:
        isint = isinstance(d, int) and not isinstance(d, float)
        bad = (not isint) or not _valid(d, merged['bounds'], k2.get('inclusive_bounds', (True, True)))
        check('C11.creation_iff_invalid', okB == (not bad), dict(info, created=okB, merged=repr(merged)))
    if okB:
        px = B.param.x
        for a in ('default', 'bounds', 'doc', 'precedence', 'constant'):
            got = getattr(px, a)
            check('C11.slot_nearest', (got is merged[a]) or (got == merged[a]), dict(info, attr=a, got=repr(got), exp=repr(merged[a])))
        if 'label' in merged and merged['label'] is not None:
            check('C11.slot_nearest', px.label == merged['label'], dict(info, attr='label'))
        check('C11.instantiate_inherited', px.instantiate is exp_inst or (merged['constant'] and px.instantiate is True),
              dict(info, got=px.instantiate, exp=exp_inst))
        check('C11.allow_None_recomputed', px.allow_None == bool(own_allow_none), dict(info, got=px.allow_None, exp=bool(own_allow_none)))


RTYPES = ['Integer', 'List', 'Tuple', 'NumericTuple', 'String']


def _rvalid(t, d, lo, hi, sb):
    """independent validity predicate of a non-None default for the root types"""
    if not sb:
        return True
    if t == 0:
        return lo <= d <= hi
    if t == 1:
        return lo <= len(d) <= hi
    if t in (2, 3):
        return len(d) == lo
    return len(d) >= 1 and all(c == 'a' for c in d)       # regex 'a+' (\Z-anchored by param)


def root(t: int, route: int, sd: bool, d: int, sb: bool, lo: int, hi: int, s2: bool, lo2: int, hi2: int) -> None:
    t = pick(t, 0, 4)
    sd, sb, s2 = pickbool(sd), pickbool(sb), pickbool(s2)
    assume(0 <= d <= 3)
    d = pick(d, 0, 3)

    def mk(sd, sb, lo, hi):
        kw = {}
        if t == 0:
            if sd:
                kw['default'] = d
            if sb:
                kw['bounds'] = (lo, hi)
            return param.Integer(**kw)
        if t == 1:
            if sd:
                kw['default'] = [0] * d
            if sb:
                kw['bounds'] = (lo, hi)
            return param.List(**kw)
        if t in (2, 3):
            if sd:
                kw['default'] = (0,) * d
            if sb:
                kw['length'] = lo
            return (param.Tuple if t == 2 else param.NumericTuple)(**kw)
        if sd:
            kw['default'] = 'a' * d
        if sb:
            kw['regex'] = 'a+'
        return param.String(**kw)
    if sb and t in (0, 1):
        assume(lo <= hi)
    if t in (1, 2, 3):
        assume(lo >= 0 and lo2 >= 0)
    info = {'type': RTYPES[t], 'route': route, 'default_given': sd, 'constraint_given': sb}
    try:
        if route == 0:
            class B(param.Parameterized):
                x = mk(sd, sb, lo, hi)
        elif route == 1:
            class B(param.Parameterized):
                pass
            B.param.add_parameter('x', mk(sd, sb, lo, hi))
        else:
            class A0(param.Parameterized):
                y = param.Integer(default=0)

            class A1(A0):
                pass

            class B(A1):
                x = mk(sd, sb, lo, hi)
        ok = True
    except (ValueError, TypeError, RuntimeError):
        ok = False
    tdef = [0, [], (0, 0), (0, 0), ''][t]
    dv = ([d, [0] * d, (0,) * d, (0,) * d, 'a' * d][t]) if sd else tdef
    exp_ok = _rvalid(t, dv, lo, hi, sb)
    if t in (2, 3) and (not sb or (sd and d > 0)):
        exp_ok = True           # documented: the length is determined by the initial (non-empty) default, if any
    check('C11.no_class_with_invalid_default', ok == exp_ok, dict(info, created=ok, default=repr(dv), lo=lo, hi=hi))
    if not ok:
        return
    got = B.param.x.default
    check('C11.slot_nearest', got == dv, dict(info, attr='default', got=repr(got), exp=repr(dv)))
    if not s2 or t == 4:
        return
    # a second level that leaves the default unspecified and only narrows the constraint
    if t in (0, 1):
        assume(lo2 <= hi2)
    try:
        p2 = mk(False, True, lo2, hi2)
    except (ValueError, TypeError):
        assume(False)           # the redeclaration must construct on its own (its type's default satisfies its constraint)
    try:
        class C(B):
            x = p2
        ok2 = True
    except (ValueError, TypeError, RuntimeError):
        ok2 = False
    if t in (2, 3):
        # Tuple length is derived from the default when unspecified; a redeclared length must agree with the inherited default
        exp2 = len(dv) == lo2
    else:
        exp2 = _rvalid(t, dv, lo2, hi2, True)
    check('C11.creation_iff_invalid', ok2 == exp2, dict(info, level=2, created=ok2, default=repr(dv), lo2=lo2, hi2=hi2))
    if ok2:
        check('C11.slot_nearest', C.param.x.default == dv, dict(info, attr='default', level=2))


root.ranges = lambda consts: dict(t=(0, 4), d=(0, 3), lo=(-1, 4), hi=(-1, 4), lo2=(-1, 4), hi2=(-1, 4))


def flags(shape: int, route: int, s1c: bool, c1: bool, s1r: bool, r1: bool, s2c: bool, c2: bool, s2r: bool, r2: bool,
          s3c: bool, c3: bool) -> None:
    """constant / readonly over A > [M skipping] > B [> C]: every level specifies a symbolic subset; an unspecified attribute
    takes the value held by the nearest declaring ancestor, independently of the other attribute (a level that specifies
    readonly=True itself holds constant=True, as documented for the constructor)."""
    def kw(sc, c, sr, r):
        k = {}
        if pickbool(sc):
            k['constant'] = pickbool(c)
        if pickbool(sr):
            k['readonly'] = pickbool(r)
        return k

    def held(k, inherited):
        ro = k['readonly'] if 'readonly' in k else inherited[1]
        if k.get('constant') is True or k.get('readonly') is True:
            co = True
        elif 'constant' in k:
            co = k['constant']
        else:
            co = inherited[0]
        return (co, ro)
    k1, k2 = kw(s1c, c1, s1r, r1), kw(s2c, c2, s2r, r2)
    k3 = {'constant': pickbool(c3)} if pickbool(s3c) else {}

    class A(param.Parameterized):
        x = param.Parameter(default=1, **k1)
    Base = A
    if shape == 1:
        class M(A):
            pass
        Base = M
    if route == 0:
        class B(Base):
            x = param.Parameter(**k2)
    else:
        class B(Base):
            pass
        B.param.add_parameter('x', param.Parameter(**k2))

    class C(B):
        x = param.Parameter(**k3)
    h1 = held(k1, (False, False))
    h2 = held(k2, h1)
    h3 = held(k3, h2)
    info = {'flags': True, 'shape': shape, 'route': route, 'k1': repr(k1), 'k2': repr(k2), 'k3': repr(k3)}
    for K, h in ((A, h1), (B, h2), (C, h3)):
        px = K.param.x
        check('C11.slot_nearest', (px.constant, px.readonly) == h, dict(info, cls=K.__name__, got=(px.constant, px.readonly), exp=h))
    check('C11.slot_nearest', B.param.x.default == 1 and C.param.x.default == 1, dict(info, attr='default'))


def rngstep(route: int, d0: int, d1: int, ss1: bool, st1: int, ss2: bool, st2: int, sb2: bool, lo2: int, hi2: int, ssb2: bool) -> None:
    """Range: the subclass leaves the default unspecified and specifies a symbolic subset of {step, bounds, softbounds};
    creation fails exactly when the inherited default violates the merged step direction / bounds.  Both levels allow
    None, so nothing but the overridden constraint can prompt the re-validation."""
    ss1, ss2, sb2, ssb2 = pickbool(ss1), pickbool(ss2), pickbool(sb2), pickbool(ssb2)
    k1 = {'default': (d0, d1), 'allow_None': True}
    if ss1:
        assume(st1 != 0)
        k1['step'] = st1
    k2 = {'allow_None': True}
    if ss2:
        assume(st2 != 0)
        k2['step'] = st2
    if sb2:
        assume(lo2 <= hi2)
        k2['bounds'] = (lo2, hi2)
    if ssb2:
        k2['softbounds'] = (0, 1)
    try:
        pa = param.Range(**k1)
    except ValueError:
        assume(False)

    class A(param.Parameterized):
        r = pa
    try:
        if route == 0:
            class B(A):
                r = param.Range(**k2)
        else:
            class B(A):
                pass
            B.param.add_parameter('r', param.Range(**k2))
        ok = True
    except Exception:
        ok = False
    step = k2.get('step', k1.get('step'))
    order_ok = step is None or (d0 <= d1 if step > 0 else d0 >= d1)
    bounds_ok = (not sb2) or (lo2 <= d0 <= hi2 and lo2 <= d1 <= hi2)
    info = {'range_step': True, 'route': route, 'k1': repr(k1), 'k2': repr(k2)}
    check('C11.creation_iff_invalid', ok == (order_ok and bounds_ok), dict(info, created=ok, order_ok=order_ok, bounds_ok=bounds_ok))
    if ok:
        px = B.param.r
        check('C11.slot_nearest', px.default == (d0, d1) and px.step == step and px.bounds == (k2['bounds'] if sb2 else None),
              dict(info, got=repr((px.default, px.step, px.bounds))))


rngstep.ranges = lambda consts: dict(d0=(-2, 2), d1=(-2, 2), st1=(-1, 1), st2=(-1, 1), lo2=(-2, 2), hi2=(-2, 2))


def selnone(typ: int, route: int, s1n: bool, n1: bool, s2n: bool, n2: bool, s2d: bool) -> None:
    """allow_None of a redeclared Selector / ListSelector / ObjectSelector is recomputed from the class's own declaration,
    never inherited (types whose constructor treats allow_None specially)."""
    typ = pick(typ, 0, 2)
    T = [param.Selector, param.ListSelector, param.ObjectSelector][typ]
    dflt = [1] if typ == 1 else 1
    k1 = {'objects': [1, 2], 'default': dflt}
    if pickbool(s1n):
        k1['allow_None'] = pickbool(n1)
    k2 = {}
    if pickbool(s2n):
        k2['allow_None'] = pickbool(n2)
    if pickbool(s2d):
        k2['default'] = [2] if typ == 1 else 2

    class A(param.Parameterized):
        s = T(**k1)
    if route == 0:
        class B(A):
            s = T(**k2)
    else:
        class B(A):
            pass
        B.param.add_parameter('s', T(**k2))
    own = bool(k2.get('allow_None', False))
    info = {'selector_allow_None': True, 'type': T.__name__, 'route': route, 'k1': repr(k1), 'k2': repr(k2)}
    check('C11.allow_None_recomputed', bool(B.param.s.allow_None) == own, dict(info, got=B.param.s.allow_None, exp=own))
    b = B()
    try:
        b.s = None
        acc = True
    except ValueError:
        acc = False
    check('C11.allow_None_recomputed', acc == own, dict(info, none_accepted=acc, exp=own))
    check('C11.slot_nearest', list(B.param.s.objects) == [1, 2], dict(info, attr='objects', got=repr(list(B.param.s.objects))))


def pathflags(typ: int, route: int, s1c: bool, c1: bool, s2c: bool, c2: bool, dflt: int) -> None:
    """Path / Filename / Foldername: check_exists is a slot like any other - left unspecified it takes the value held by
    the nearest declaring ancestor; with check_exists False a non-existing default is valid, so creation succeeds."""
    typ = pick(typ, 0, 2)
    T = [param.Path, param.Filename, param.Foldername][typ]
    dflt = pick(dflt, 0, 1)
    k1 = {'default': [None, '/nonexistent/x'][dflt]}
    if pickbool(s1c):
        k1['check_exists'] = pickbool(c1)
    k2 = {'doc': 'redeclared'}
    if pickbool(s2c):
        k2['check_exists'] = pickbool(c2)
    try:
        pa = T(**k1)
    except Exception:
        assume(False)          # the base declaration is itself invalid (non-existing default with check_exists True)

    class A(param.Parameterized):
        p = pa
    try:
        if route == 0:
            class B(A):
                p = T(**k2)
        else:
            class B(A):
                pass
            B.param.add_parameter('p', T(**k2))
        ok = True
    except Exception:
        ok = False
    held = k2.get('check_exists', k1.get('check_exists', True))
    valid = (k1['default'] is None) or (held is False)
    info = {'path_check_exists': True, 'type': T.__name__, 'route': route, 'k1': repr(k1), 'k2': repr(k2)}
    check('C11.creation_iff_invalid', ok == valid, dict(info, created=ok, expected=valid))
    if ok:
        check('C11.slot_nearest', B.param.p.check_exists is held and B.param.p.default == k1['default'], dict(info, got=B.param.p.check_exists, exp=held))


def shards(tier):
    out = []
    q = tier == 'quick'
    nattr = 4 if q else 8
    for shape in range(5):
        for tc in range(3):
            for route in range(2):
                if q and route == 1 and shape != 0:
                    continue
                if q and shape == 2 and tc == 1:
                    continue
                for s2d in (False, True):
                    for s2b in (False, True):
                        if shape == 3 and (tc == 1 or route == 1):
                            continue
                        if shape == 4 and (tc != 2 or route == 1):
                            continue
                        c = dict(shape=shape, tc=tc, route=route, nattr=nattr, s2d=s2d, s2b=s2b)
                        if q and not (shape == 0 and tc == 0):
                            c.update(s2inc=False, inc_lo2=True, inc_hi2=True)
                        if nattr <= 4:
                            c.update(s1n=False, n1=False, s1c=False, c1=False, s1p=False, p1=0, s1l=False,
                                     s2n=False, n2=False, s2c=False, c2=False, s2p=False, p2=0, s2l=False)
                        if shape != 2:
                            c.update(sld=False, dl=0, slb=False, lol=0, hil=0)
                        if tc == 1:
                            # Number>Integer: avoid comparing the float type default 0.0 with symbolic int bounds (mixed
                            # int/float SMT is slow): either A specifies an int default, or nobody declares bounds
                            if s2b:
                                c.update(s1d=True)
                            else:
                                c.update(s1b=False, lo1=0, hi1=0)
                        out.append(dict(name='sh%d_tc%d_r%d_%d%d' % (shape, tc, route, s2d, s2b), module='harness.c11', fn='prog',
                                        consts=c, budget_s=60 if q else 600))
    for route in (0, 1):
        out.append(dict(name='pathflags_r%d' % route, module='harness.c11', fn='pathflags', consts=dict(route=route), budget_s=60 if q else 300))
    for route in (0, 1):
        out.append(dict(name='selnone_r%d' % route, module='harness.c11', fn='selnone', consts=dict(route=route), budget_s=60 if q else 300))
    for route in (0, 1):
        out.append(dict(name='rngstep_r%d' % route, module='harness.c11', fn='rngstep', consts=dict(route=route), budget_s=60 if q else 300))
    for shape in (0, 1):
        for route in (0, 1):
            out.append(dict(name='flags_s%d_r%d' % (shape, route), module='harness.c11', fn='flags', consts=dict(shape=shape, route=route),
                            budget_s=60 if q else 300))
    for t in range(5):
        for route in range(3):
            out.append(dict(name='root_t%d_r%d' % (t, route), module='harness.c11', fn='root', consts=dict(t=t, route=route),
                            budget_s=40 if q else 300))
    return out


def bounds(tier):
    return dict(shapes=SHAPES, type_changes=TCS, routes=ROUTES, attributes=ATTRS[:2] + ['instantiate', 'doc'] if tier == 'quick' else ATTRS,
                values='symbolic ints in [-3,3] for default, bounds, precedence')


def _ranges(consts):
    r = {}
    for n in ('d1', 'lo1', 'hi1', 'd2', 'lo2', 'hi2', 'dl', 'lol', 'hil', 'p1', 'p2'):
        r[n] = (-3, 3)
    return r


prog.ranges = _ranges
