"""C12 - instances and classes do not leak values or metadata into each other.
Symbolic: history of k operations (opcode, target, value); concrete (shard): instantiate flag, first opcode."""
import param
from sx.api import assume, check, cover, untraced, pick, pickbool

PROPERTY = 'C12'
LABELS = ['C12.class_value', 'C12.class_meta', 'C12.inst_value', 'C12.inst_list', 'C12.inst_meta_kept', 'C12.inst_bounds_used',
          'C12.shared_identity', 'C12.private_copies', 'C12.constant_kept', 'C12.selector_objects_private']
EXPLANATION = ("Harness c12.prog: classes A and B(A) with an Integer x, a List l (instantiate symbolic per shard), a constant c and a "
               "Selector s declared without objects; history of k symbolic operations (create instance with/without kwargs, instance "
               "set, assigning the identical current class default, class set on A or B, in-place append, per-instance bounds edit, "
               "class-level Parameter edit, per-instance Selector.objects append, class-level reassignment of the constant) and an "
               "ownership model (each (object, parameter) either follows the class default or owns a value; instance Parameter objects "
               "are private copies); everything is observed after every step.")
STUBS = []
OUTSIDE = ["per_instance=False parameters", "copy.copy of instances", "Selector values passed as constructor keywords (check_on_set=False "
           "appends them to the objects in place, documented behaviour of Selector)", "more than 2 instances, 2 classes"]
ASSUMPTIONS = ["values symbolic ints; bounds edits (v, 100) with v < 100"]
N_OPS = 12


def prog(inst_l: bool, k: int, o1: int, t1: int, v1: int, o2: int, t2: int, v2: int, o3: int, t3: int, v3: int,
         o4: int, t4: int, v4: int) -> None:
    with untraced():
        class A(param.Parameterized):
            x = param.Integer(default=0)
            l = param.List(default=[0], instantiate=inst_l, allow_refs=True)
            c = param.Parameter(default=None, constant=True)
            s = param.Selector(objects=[], check_on_set=False)
            sd = param.Selector(objects={'a': 1}, default=1)     # declared with named objects: the names dict is a slot value too

            def __len__(self):         # instances are falsy (an empty container): None and "empty" must not be confused
                return 0

        class B(A):
            pass
        class _S(param.Parameterized):
            n = param.Integer(default=0)
        _src = _S()

        @param.depends(_src.param.n)
        def skipping_ref(n):
            raise param.Skip          # a reference that has nothing to deliver yet: the instance stays on its default
    classes = [A, B]
    cls_x = {0: 0, 1: None}        # B: None = follows A
    cls_doc = {0: None, 1: 'follow'}
    cls_c = {0: None, 1: None}
    insts = []                     # dict(k, x (own or None), l (model list), b (bounds or 'cls'), c, so (selector objects))
    objs = []
    shared_l = [0]

    def cls_val(kk):
        return cls_x[1] if (kk == 1 and cls_x[1] is not None) else cls_x[0]

    def cls_cval(kk):
        return cls_c[1] if (kk == 1 and cls_c[1] is not None) else cls_c[0]
    for step, (o, t, v) in enumerate(((o1, t1, v1), (o2, t2, v2), (o3, t3, v3), (o4, t4, v4))[:k]):
        o = pick(o, 0, N_OPS - 1)
        t = pick(t, 0, 1)
        cover('C12.op%d' % o)
        info = {'op': o, 'target': t, 'step': step, 'instantiate': inst_l}
        if o == 0:     # create instance of class t
            assume(len(objs) < 2)
            objs.append(classes[t]())
            insts.append(dict(k=t, x=None, l=(list(shared_l) if inst_l else shared_l), b='cls', c=cls_cval(t), so=[]))
        elif o == 9:   # create with a constructor keyword
            assume(len(objs) < 2)
            objs.append(classes[t](x=v))
            insts.append(dict(k=t, x=v, l=(list(shared_l) if inst_l else shared_l), b='cls', c=cls_cval(t), so=[]))
        elif o == 10:  # create with a reference (for the list) that skips: the default must still be handled per `instantiate`
            assume(len(objs) < 2)
            objs.append(classes[t](l=skipping_ref))
            insts.append(dict(k=t, x=None, l=(list(shared_l) if inst_l else shared_l), b='cls', c=cls_cval(t), so=[]))
        elif o in (1, 11):   # instance set x (attribute / update route)
            assume(len(objs) > t)
            b = insts[t]['b']
            ok = True if b == 'cls' else (b[0] <= v <= b[1])
            try:
                if o == 1:
                    objs[t].x = v
                else:
                    objs[t].param.update(x=v)
                acc = True
            except ValueError:
                acc = False
            check('C12.inst_bounds_used', acc == ok, info)
            if acc:
                insts[t]['x'] = v
        elif o == 7:   # assign the identical object that currently is the class default
            assume(len(objs) > t and insts[t]['b'] == 'cls')
            cur = getattr(type(objs[t]), 'x')
            objs[t].x = cur
            insts[t]['x'] = cur
        elif o == 2:   # class set x
            classes[t].x = v
            cls_x[t] = v
        elif o == 3:   # in-place mutation of instance list
            assume(len(objs) > t)
            objs[t].l.append(v)
            insts[t]['l'].append(v)
        elif o == 4:   # per-instance Parameter edit
            assume(len(objs) > t and v < 100)
            objs[t].param.x.bounds = (v, 100)
            insts[t]['b'] = (v, 100)
        elif o == 5:   # class-level Parameter attribute edit
            classes[t].param.x.doc = 'doc%d' % step
            if t == 0:
                cls_doc[0] = 'doc%d' % step
                # B shares A's Parameter object until B gets its own (class-level set on B)
            else:
                if cls_x[1] is None:
                    cls_doc[0] = 'doc%d' % step      # B.param.x *is* A's Parameter object
                else:
                    cls_doc[1] = 'doc%d' % step
        elif o == 6:   # per-instance Selector objects edit
            assume(len(objs) > t)
            objs[t].param.s.objects.append(v)
            insts[t]['so'].append(v)
            objs[t].param.sd.objects['k%d' % step] = v          # named objects edited in place on the instance's Parameter
            insts[t].setdefault('sd', {'a': 1})['k%d' % step] = v
        elif o == 8:   # class-level reassignment of the constant's default
            classes[t].c = v
            cls_c[t] = v
        # observe everything
        for kk in (0, 1):
            check('C12.class_value', classes[kk].x == cls_val(kk), dict(info, cls=kk))
            check('C12.class_meta', classes[kk].param.x.bounds is None, dict(info, cls=kk))
            check('C12.selector_objects_private', list(classes[kk].param.s.objects) == [], dict(info, cls=kk))
            check('C12.selector_objects_private', dict(classes[kk].param.sd.names) == {'a': 1}
                  and list(classes[kk].param.sd.objects) == [1], dict(info, cls=kk, named=True))
        for i, (ob, mi) in enumerate(zip(objs, insts)):
            exp = mi['x'] if mi['x'] is not None else cls_val(mi['k'])
            check('C12.inst_value', ob.x == exp, dict(info, inst=i))
            check('C12.inst_list', ob.l == mi['l'], dict(info, inst=i))
            check('C12.constant_kept', ob.c is mi['c'] or ob.c == mi['c'], dict(info, inst=i))
            if mi['b'] != 'cls':
                check('C12.inst_meta_kept', ob.param.x.bounds == mi['b'], dict(info, inst=i))
            if mi['so'] or any(m2['so'] for m2 in insts):
                check('C12.selector_objects_private', list(ob.param.s.objects) == mi['so'], dict(info, inst=i))
                check('C12.selector_objects_private', dict(ob.param.sd.names) == mi.get('sd', {'a': 1}), dict(info, inst=i, named=True))
        if not inst_l:
            check('C12.shared_identity', all(ob.l is A.l for ob in objs), info)
        else:
            check('C12.private_copies', all(ob.l is not A.l for ob in objs) and A.l == [0], info)


def _ranges(consts):
    r = {}
    for n in (1, 2, 3, 4):
        r['o%d' % n] = (0, N_OPS - 1)
        r['t%d' % n] = (0, 1)
    return r


prog.ranges = _ranges


def shards(tier):
    out = []
    q = tier == 'quick'
    k = 3 if q else 4
    for inst_l in (False, True):
        for o1 in (0, 2, 5, 8, 9, 10):          # programs start by creating an instance or with a class-level operation
            for t1 in (0, 1):
                for o2 in range(N_OPS):
                    c = dict(inst_l=inst_l, k=k, o1=o1, t1=t1, o2=o2)
                    if k < 4:
                        c.update(o4=0, t4=0, v4=0)
                    out.append(dict(name='i%d_o%d_t%d_%d' % (inst_l, o1, t1, o2), module='harness.c12', fn='prog', consts=c,
                                    budget_s=60 if q else 600))
    return out


def bounds(tier):
    return dict(program_length=3 if tier == 'quick' else 4, instances=2, classes=2, instantiate=[False, True],
                opcodes=['create instance', 'instance set x', 'class set x', 'in-place append', 'per-instance bounds edit',
                         'class-level Parameter attribute edit', 'per-instance Selector.objects append',
                         'assign the identical current class default', 'class-level reassignment of the constant', 'create with kwarg', 'create with a skipping reference for the list', 'instance update(x=v)'],
                instance_truthiness='falsy (__len__ returns 0)')
