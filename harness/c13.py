"""C13 - the .param namespace always agrees with attribute access.
Symbolic: k operations (opcode, target class, value); concrete (shard): hierarchy shape, first opcode."""
import inspect

import param
import param.serializer
from sx.api import assume, check, cover, untraced, pick

PROPERTY = 'C13'
LABELS = ['C13.watch_sees_getattr', 'C13.listed', 'C13.same_object', 'C13.default_equals_attr', 'C13.values_agree', 'C13.inst_values_agree',
          'C13.inst_same_names', 'C13.watchable', 'C13.serializable_names', 'C13.repr_names', 'C13.no_extra']
EXPLANATION = ("Harness c13.prog: k operations (namespace reads that populate caches, class-level sets, add_parameter, "
               "instance creation, instance sets, instance-level namespace reads that create the per-instance Parameter objects) at symbolic positions of a class hierarchy (chain or diamond); after "
               "every step every class and instance is compared: inspect.getattr_static/getattr vs .param[...], "
               "`in`, iteration, values(), watch(), serialize_parameters(), repr.")
OUTSIDE = ["dynamic (callable) values", "deleting attributes", "hierarchies other than the chain A>B>C (C redeclares x), the "
           "diamond A>(L,R)>J (L redeclares x) and the deep chain A>B>C>D", "more than 2 added parameters"]
ASSUMPTIONS = ["values are ints in Integer parameters without bounds"]
STUBS = ["JSON text is abstract: Parameter._serializers['json'] replaced by a subclass of the real JSONSerialization whose dumps/loads are the identity (the serializer loop and per-type hooks still run)"]
N_OPS = 9


def _mk(shape):
    class A(param.Parameterized):
        x = param.Integer(default=1, bounds=(-1000, 1000))
        z = param.Integer(default=10)
    if shape == 0:
        class B(A):
            pass

        class C(B):
            x = param.Integer(default=5, bounds=(-1000, 1000))
        return [A, B, C]
    if shape == 2:      # a deep chain in which only the root declares: a set on B must reach the namespaces of C and D
        class B(A):
            pass

        class C(B):
            pass

        class D(C):
            pass
        return [A, B, C, D]

    class L(A):
        x = param.Integer(default=5, bounds=(-1000, 1000))

    class R(A):
        pass

    class J(R, L):
        pass
    return [A, L, R, J]


def _static_params(K):
    with untraced():
        return _static_params_(K)


def _static_params_(K):
    out = {}
    for name in dir(K):
        try:
            st = inspect.getattr_static(K, name)
        except AttributeError:
            continue
        if isinstance(st, param.Parameter):
            out[name] = st
    return out


class _NoText(param.serializer.JSONSerialization):
    """Stub: the JSON text is abstract (identity); the real serializer loop and hooks still run."""

    @classmethod
    def dumps(cls, obj):
        return obj

    @classmethod
    def loads(cls, s):
        return s


def prog(shape: int, k: int, each: int, symv: int, watch: int, o1: int, t1: int, v1: int, o2: int, t2: int, v2: int, o3: int, t3: int, v3: int,
         o4: int, t4: int, v4: int) -> None:
    with untraced():
        classes = _mk(shape)
        saved = param.Parameter._serializers['json']
        param.Parameter._serializers['json'] = _NoText
    steps = ((o1, t1, v1), (o2, t2, v2), (o3, t3, v3), (o4, t4, v4))[:k]
    try:
        if symv:
            _body(classes, shape, k, each, steps, watch)
        else:
            # values are the constants 7, 8, ...; once opcode and target of every step are decided the rest of
            # the path is concrete, so it runs natively
            conc = [(pick(o, 0, N_OPS - 1), pick(t, 0, len(classes) - 1), 7 + i) for i, (o, t, v) in enumerate(steps)]
            with untraced():
                _body(classes, shape, k, each, conc, watch)
    finally:
        with untraced():
            param.Parameter._serializers['json'] = saved


def _body(classes, shape, k, each, steps, watch):
    objs = []
    seen = []       # (class name, event.new, getattr(class, 'x') inside the callback)
    if watch:       # class-level watchers (registering them reads, hence populates, every namespace)
        def mk(K):
            def cb(e):
                if e.cls is K and e.obj is K:
                    seen.append((K.__name__, e.new, getattr(K, 'x')))
            return cb
        for K in classes:
            K.param.watch(mk(K), 'x', onlychanged=False)
    added = 0
    for step, (o, t, v) in enumerate(steps):
        K = classes[pick(t, 0, len(classes) - 1)]
        cover('op%d' % pick(o, 0, N_OPS - 1))
        if o == 0:      # namespace read (populates the cache)
            list(K.param); K.param['x']; 'x' in K.param
        elif o == 1:    # class-level set
            K.x = v
        elif o == 2:    # add_parameter
            assume(added < 2)
            K.param.add_parameter('y%d' % added, param.Integer(default=v)); added += 1
        elif o == 3:
            assume(len(objs) < 2)
            objs.append(K())
        elif o == 4:
            assume(len(objs) > 0)
            objs[-1].x = v
        elif o == 5:    # add_parameter overriding an existing name
            K.param.add_parameter('z', param.Integer(default=v))
        elif o == 8:    # a Parameter object assigned as a class attribute (the route add_parameter documents as supported)
            assume(added < 2)
            setattr(K, 'y%d' % added, param.Integer(default=v)); added += 1
        elif o == 7:    # instance-level namespace read: creates the per-instance Parameter objects
            assume(len(objs) > 0)
            ob = objs[-1]
            list(ob.param); ob.param['x']; ob.param.z; 'x' in ob.param
        elif o == 6:    # rejected class-level set (out of bounds): whatever it leaves behind must stay consistent
            try:
                K.x = 5000
            except ValueError:
                pass
        for cname, new, via in seen:
            check('C13.watch_sees_getattr', new == via, {'cls': cname, 'op': o if isinstance(o, int) else pick(o, 0, N_OPS - 1)})
        if not each and step < k - 1:
            continue      # the comparison itself reads (and so populates) every namespace
        for K in classes:
            info = {'op': pick(o, 0, N_OPS - 1), 'cls': K.__name__, 'shape': shape, 'target': classes[pick(t, 0, len(classes) - 1)].__name__}
            sp = _static_params(K)
            listed = list(K.param)
            check('C13.no_extra', sorted(listed) == sorted(sp), dict(info, listed=listed, static=sorted(sp)))
            vals = K.param.values()
            ser = None
            for name, static in sp.items():
                i2 = dict(info, name=name)
                check('C13.listed', name in K.param and name in listed, i2)
                check('C13.same_object', K.param[name] is static, i2)
                check('C13.default_equals_attr', K.param[name].default == getattr(K, name), i2)
                check('C13.values_agree', name in vals and vals[name] == getattr(K, name), i2)
        for idx, ob in enumerate(objs):
            K = type(ob)
            info = {'op': pick(o, 0, N_OPS - 1), 'cls': K.__name__, 'shape': shape, 'inst': idx}
            sp = _static_params(K)
            vals = ob.param.values()
            check('C13.inst_same_names', sorted(vals) == sorted(sp) and sorted(ob.param) == sorted(sp), dict(info, names=sorted(vals)))
            for name in sp:
                check('C13.inst_values_agree', vals[name] == getattr(ob, name), dict(info, name=name))
            ser = ob.param.serialize_parameters()      # text level stubbed: the dict handed to dumps()
            r = repr(ob)
            check('C13.serializable_names', sorted(ser) == sorted(sp), dict(info, ser=sorted(ser)))
            for name in sp:
                if name != 'name':
                    check('C13.serializable_names', ser[name] == getattr(ob, name), dict(info, name=name))
                    check('C13.repr_names', ('%s=' % name) in r, dict(info, name=name))
            for name in sp:
                try:
                    w = ob.param.watch(lambda e: None, name)
                    ob.param.unwatch(w)
                    ok = True
                except Exception:
                    ok = False
                check('C13.watchable', ok, dict(info, name=name))


def _ranges(consts):
    ncls = 3 if consts['shape'] == 0 else 4
    r = {}
    for i in (1, 2, 3, 4):
        r['o%d' % i] = (0, N_OPS - 1)
        r['t%d' % i] = (0, ncls - 1)
        r['v%d' % i] = (-1000, 1000)      # the declared hard bounds of x (symbolic-value shards)
    return r


prog.ranges = _ranges


def shards(tier):
    out = []
    # (symv, each, k)
    plan = [(0, 0, 3), (0, 1, 3)] if tier == 'quick' else [(0, 0, 4), (0, 1, 4), (1, 0, 2)]
    for symv, each, k in plan:
        for shape in (0, 1, 2):
            ncls = 3 if shape == 0 else 4
            for o1 in range(N_OPS):
                if o1 in (4, 7):
                    continue   # needs an instance first
                for t1 in range(ncls):
                    if tier == 'quick' and shape == 1 and not each:
                        continue       # quick: the diamond only with the comparison after every step
                    if shape == 2 and (o1 not in (0, 3) or t1 < 2):
                        continue       # deep chain: programs that start by populating the namespace of / instantiating C or D
                    c = dict(shape=shape, k=k, each=each, symv=symv, watch=each, o1=o1, t1=t1)
                    for j in range(k + 1, 5):
                        c.update({'o%d' % j: 0, 't%d' % j: 0, 'v%d' % j: 0})
                    if not symv:
                        c.update(v1=0, v2=0, v3=0, v4=0)
                    out.append(dict(name='sh%d_s%de%dk%d_o%d_t%d' % (shape, symv, each, k, o1, t1), module='harness.c13',
                                    fn='prog', consts=c, budget_s=100 if tier == 'quick' else (300 if symv else 1500)))
    return out


def bounds(tier):
    return dict(programs='k=3 opcode/target programs with constant values (comparison after every step or only at the end)'
                         if tier == 'quick' else
                         'k=4 opcode/target programs with constant values; k=2 with symbolic unbounded int values (300 s budget per shard, exhaustion not expected)',
                hierarchies=['chain A>B>C (C redeclares x)', 'diamond A>(L,R)>J (L redeclares x)', 'deep chain A>B>C>D (only A declares)'],
                opcodes=['namespace read', 'class set', 'add_parameter new', 'create instance', 'instance set', 'add_parameter overriding z', 'rejected class set', 'instance-level namespace read', 'setattr(class, name, Parameter object)'])
