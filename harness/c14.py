"""C14 - constant and read-only parameters cannot be rebound after construction.
Symbolic: constructor variant and a history of k operations (opcode, object choice from a pool)."""
import param
from param.parameterized import edit_constant
from sx.api import assume, check, cover, untraced, pick, pickbool

PROPERTY = 'C14'
LABELS = ['C14.const_guard', 'C14.readonly_never', 'C14.name_constant', 'C14.const_identity', 'C14.readonly_value',
          'C14.flags_restored', 'C14.class_set_leaves_instances', 'C14.ref_to_constant_rejected']
EXPLANATION = ("Harness c14.prog: an instance of Q(P) with a constant c (default object, optionally given in the constructor), a "
               "constant d whose default is None, and a readonly r; history of k symbolic operations (instance set / update / class "
               "set on P or Q / readonly set at instance, class, subclass level / edit_constant ENTER / EXIT / exceptional EXIT / set "
               "of name) with objects chosen from a pool by symbolic index; the held object may change only inside edit_constant or "
               "by re-assigning the identical object, every other attempt raises TypeError, flags are restored on every exit.")
EXPLANATION += (" Harness c14.two: two instances of Q plus an instance created during the history (possibly while an "
                "edit_constant block of another object is open); edit_constant ENTER / EXIT per instance (LIFO, depth 2), instance "
                "sets, class-level sets, and a reference handed to the constant allow_refs parameter k followed by a change of its "
                "source: an instance is editable while its own block is open, protected whenever no block is open at all, keeps "
                "its object across class-level sets, and all flags are restored once every block is closed.")
STUBS = []
OUTSIDE = ["whether other instances are editable while edit_constant(p) is open (statement silent)", "nesting deeper than 2"]
ASSUMPTIONS = ["objects from a pool of 4 distinct objects; names from a pool of 3 distinct strings"]
N_OPS = 9


class Boom(Exception):
    pass


O = [object(), object(), object(), object()]
NAMES = ['zz', 'yy1'[:2], 'xx']


def prog(ctor: int, k: int, npool: int, o1: int, a1: int, o2: int, a2: int, o3: int, a3: int, o4: int, a4: int, o5: int, a5: int) -> None:
    with untraced():
        class P(param.Parameterized):
            c = param.Parameter(default=O[0], constant=True)
            d = param.Parameter(default=None, constant=True)
            k = param.Parameter(default=O[0], constant=True, allow_refs=True)
            r = param.Parameter(default=O[0], readonly=True)
            r2 = param.Parameter(default=O[0])

            def __len__(self):         # instances are falsy (an empty container)
                return 0

        class Q(P):
            pass
        P.param.r2.readonly = True      # read-only by flag only: its constant flag stays False
    ctor = pick(ctor, 0, 2)
    if ctor == 2:
        # a constant given a reference that has nothing to deliver yet (param.Skip): the instance keeps the default object
        with untraced():
            class _S(param.Parameterized):
                n = param.Integer(default=0)
            _src = _S()

            @param.depends(_src.param.n)
            def skipping(n):
                raise param.Skip
        p = Q(k=skipping)
    else:
        p = Q(c=O[1]) if ctor else Q()
    held = {'c': O[1] if ctor == 1 else O[0], 'd': None, 'k': O[0]}
    held_name = p.name
    stack = []   # open edit_constant contexts
    for step, (o, a) in enumerate(((o1, a1), (o2, a2), (o3, a3), (o4, a4), (o5, a5))[:k]):
        o = pick(o, 0, N_OPS - 1)
        a = pick(a, 0, npool - 1)
        cover('C14.op%d' % o)
        v = O[a]
        editable = len(stack) > 0
        info = {'op': o, 'step': step, 'editable': editable, 'ctor': ctor}

        def attempt(f):
            try:
                f()
                return 'ok'
            except TypeError:
                return 'TypeError'
        if o in (0, 1, 8):      # instance set / update of c, instance set of d
            pname = 'd' if o == 8 else 'c'
            if o == 1:
                res = attempt(lambda: p.param.update(**{pname: v}))
            else:
                res = attempt(lambda: setattr(p, pname, v))
            exp_ok = editable or (v is held[pname])
            check('C14.const_guard', (res == 'ok') == exp_ok, dict(info, res=res, pname=pname))
            if res == 'ok':
                held[pname] = v
        elif o == 2:    # class-level set on declaring class / subclass: allowed, must not affect the existing instance
            K = P if a % 2 == 0 else Q
            pname = ('c' if a < 2 else 'd') if ctor != 2 else 'k'
            res = attempt(lambda: setattr(K, pname, v))
            check('C14.class_set_leaves_instances', getattr(p, pname) is held[pname], dict(info, cls=K.__name__, pname=pname, res=res))
        elif o == 3:    # readonly at any level
            tgt = [p, P, Q][a % 3]
            res = attempt(lambda: setattr(tgt, 'r', v))
            check('C14.readonly_never', res == 'TypeError', dict(info, level=a % 3))
            res = attempt(lambda: setattr(tgt, 'r2', v))
            check('C14.readonly_never', res == 'TypeError', dict(info, level=a % 3, runtime_flag=True))
        elif o == 4:
            assume(len(stack) < 2)
            cm = edit_constant(p)
            cm.__enter__()
            stack.append(cm)
        elif o == 5:
            assume(len(stack) > 0)
            stack.pop().__exit__(None, None, None)
        elif o == 6:    # exceptional exit
            assume(len(stack) > 0)
            cm = stack.pop()
            try:
                cm.__exit__(Boom, Boom(), None)
            except Boom:
                pass
        elif o == 7:
            nm = NAMES[a % 3]
            res = attempt(lambda: setattr(p, 'name', nm))
            check('C14.name_constant', (res == 'ok') == (editable or nm is held_name), dict(info, res=res))
            if res == 'ok':
                held_name = nm
        check('C14.const_identity', p.c is held['c'] and p.d is held['d'] and p.k is held['k'] and p.name is held_name, info)
        check('C14.readonly_value', p.r is O[0] and P.r is O[0] and Q.r is O[0] and p.r2 is O[0] and P.r2 is O[0], info)
        if not stack:
            ok = all(p.param[n].constant is True and Q.param[n].constant is True and P.param[n].constant is True
                     for n in ('c', 'd', 'r', 'name'))
            check('C14.flags_restored', ok, info)


def _ranges(consts):
    r = {}
    for n in (1, 2, 3, 4, 5):
        r['o%d' % n] = (0, N_OPS - 1)
        r['a%d' % n] = (0, consts['npool'] - 1)
    return r


prog.ranges = _ranges


N2 = 6


def two(k: int, npool: int, o1: int, t1: int, a1: int, o2: int, t2: int, a2: int, o3: int, t3: int, a3: int,
        o4: int, t4: int, a4: int, o5: int, t5: int, a5: int) -> None:
    with untraced():
        class S(param.Parameterized):
            v = param.Parameter(default=O[3])

        class P(param.Parameterized):
            c = param.Parameter(default=O[0], constant=True)
            k = param.Parameter(default=O[0], constant=True, allow_refs=True)

        class Q(P):
            name = param.String(default='qname')       # a class that overrides the default of the (constant) name
        src = S()
    insts = [Q(), Q()]
    held = [{'c': O[0], 'k': O[0], 'name': 'qname'}, {'c': O[0], 'k': O[0], 'name': 'qname'}]
    stack = []      # (context manager, index of the instance it was opened on)
    for step, (o, t, a) in enumerate(((o1, t1, a1), (o2, t2, a2), (o3, t3, a3), (o4, t4, a4), (o5, t5, a5))[:k]):
        o = pick(o, 0, N2 - 1)
        a = pick(a, 0, npool - 1)
        cover('C14.two_op%d' % o)
        v = O[a]
        open_on = [i for _, i in stack]
        info = {'op': o, 'step': step, 'open_on': list(open_on), 'two': True}
        if o == 0:      # instance set of c on instance t
            assume(0 <= t < len(insts))
            t = pick(t, 0, len(insts) - 1)
            try:
                insts[t].c = v
                res = 'ok'
            except TypeError:
                res = 'TypeError'
            inf = dict(info, target=t, res=res)
            if t in open_on or v is held[t]['c']:
                check('C14.const_guard', res == 'ok', inf)
            elif not open_on:
                check('C14.const_guard', res == 'TypeError', inf)
            # only another object's block is open: the statement is silent on whether t is editable
            if res == 'ok':
                held[t]['c'] = v
        elif o == 1:    # ENTER on instance t
            assume(len(stack) < 2 and 0 <= t < len(insts))
            t = pick(t, 0, len(insts) - 1)
            cm = edit_constant(insts[t])
            cm.__enter__()
            stack.append((cm, t))
        elif o == 2:    # EXIT (LIFO)
            assume(len(stack) > 0)
            stack.pop()[0].__exit__(None, None, None)
        elif o == 3:    # a new instance, possibly while a block of another object is open
            assume(len(insts) < 3)
            if a == 1:
                with param.shared_parameters():      # instances built here share their instantiated defaults, constants stay their own
                    insts.append(Q())
            else:
                insts.append(Q())
            held.append({'c': Q.c, 'k': Q.k, 'name': Q.name})
        elif o == 4:    # class-level set on P / Q
            K = P if a % 2 == 0 else Q
            try:
                if a == 2:
                    Q.name = NAMES[t % 3]
                else:
                    K.c = v
            except TypeError:
                pass
        else:           # a reference handed to the constant k of instance t while no block is open, then its source changes
            assume(not stack and 0 <= t < len(insts))
            t = pick(t, 0, len(insts) - 1)
            assume(src.v is not held[t]['k'])
            try:
                insts[t].k = src.param.v
                res = 'ok'
            except TypeError:
                res = 'TypeError'
            check('C14.ref_to_constant_rejected', res == 'TypeError', dict(info, target=t, res=res))
            src.v = v
        for i, ob in enumerate(insts):
            check('C14.const_identity', ob.c is held[i]['c'] and ob.k is held[i]['k'] and ob.name == held[i]['name'], dict(info, inst=i))
        if not stack:
            ok = all(ob.param[n].constant is True for ob in insts for n in ('c', 'k', 'name')) and \
                all(K.param[n].constant is True for K in (P, Q) for n in ('c', 'k', 'name'))
            check('C14.flags_restored', ok, info)
    # finally close whatever is open and probe every instance: nobody may be left unprotected
    while stack:
        stack.pop()[0].__exit__(None, None, None)
    for i, ob in enumerate(insts):
        other = O[1] if held[i]['c'] is not O[1] else O[2]
        try:
            ob.c = other
            res = 'ok'
        except TypeError:
            res = 'TypeError'
        check('C14.const_guard', res == 'TypeError', {'two': True, 'final_probe': True, 'inst': i, 'res': res})
        check('C14.const_identity', ob.c is held[i]['c'], {'two': True, 'final_probe': True, 'inst': i})


def _ranges2(consts):
    r = {}
    for n in (1, 2, 3, 4, 5):
        r['o%d' % n] = (0, N2 - 1)
        r['t%d' % n] = (0, 2)
        r['a%d' % n] = (0, consts['npool'] - 1)
    return r


two.ranges = _ranges2


def clsedit(exc: bool, a: int, sub: bool) -> None:
    """edit_constant handed a class: flags are restored on normal and exceptional exit, nothing but the body's own
    exception escapes, instances created before keep their object."""
    exc, sub = pickbool(exc), pickbool(sub)
    a = pick(a, 0, 2)
    with untraced():
        class P(param.Parameterized):
            c = param.Parameter(default=O[0], constant=True)

        class Q(P):
            pass
        p = Q()
    K = Q if sub else P
    raised = None
    try:
        with edit_constant(K):
            K.c = O[a]
            if exc:
                raise Boom()
    except Boom:
        raised = 'Boom'
    except Exception as e:      # noqa
        raised = type(e).__name__
    info = {'class_level_edit_constant': True, 'exceptional': exc, 'subclass': sub}
    check('C14.flags_restored', raised == ('Boom' if exc else None), dict(info, raised=raised))
    check('C14.flags_restored', all(X.param.c.constant is True and X.param.name.constant is True for X in (P, Q)) and p.param.c.constant is True, info)
    check('C14.class_set_leaves_instances', p.c is O[0], info)
    try:
        p.c = O[1]
        res = 'ok'
    except TypeError:
        res = 'TypeError'
    check('C14.const_guard', res == 'TypeError', dict(info, res=res))


clsedit.ranges = lambda consts: dict(a=(0, 2))


def timecall(v: int) -> None:
    """param.Time changes its constant time_type when called with one: afterwards the parameter is protected again."""
    v = pick(v, 1, 3)
    with untraced():
        t = param.Time()
    t(v, time_type=float)
    info = {'time_call': True}
    check('C14.const_identity', t.time_type is float and t() == float(v), info)
    try:
        t.time_type = int
        res = 'ok'
    except TypeError:
        res = 'TypeError'
    check('C14.const_guard', res == 'TypeError', dict(info, res=res))
    check('C14.flags_restored', t.param.time_type.constant is True and param.Time.param.time_type.constant is True, info)


timecall.ranges = lambda consts: dict(v=(1, 3))


def shards(tier):
    out = []
    q = tier == 'quick'
    k = 3 if q else 4
    for ctor in (0, 1, 2):
        for o1 in range(N_OPS):
            if o1 in (5, 6):
                continue
            if q and ctor == 1 and o1 not in (0, 2, 4):
                continue
            if ctor == 2 and o1 not in (2, 4):
                continue
            for o2 in range(N_OPS):
                c = dict(ctor=ctor, k=k, o1=o1, o2=o2, npool=3 if q else 4)
                for j in range(k + 1, 6):
                    c.update({'o%d' % j: 0, 'a%d' % j: 0})
                out.append(dict(name='c%d_o%d%d' % (ctor, o1, o2), module='harness.c14', fn='prog', consts=c,
                                budget_s=60 if q else 600))
    out.append(dict(name='clsedit', module='harness.c14', fn='clsedit', consts={}, budget_s=30))
    out.append(dict(name='timecall', module='harness.c14', fn='timecall', consts={}, budget_s=30))
    k2 = 4 if q else 5
    for o1 in ((1, 3, 4, 5) if q else (0, 1, 3, 4, 5)):
        for o2 in range(N2):
            c = dict(k=k2, npool=3, o1=o1, o2=o2)
            for j in range(k2 + 1, 6):
                c.update({'o%d' % j: 0, 't%d' % j: 0, 'a%d' % j: 0})
            out.append(dict(name='two_o%d%d' % (o1, o2), module='harness.c14', fn='two', consts=c, budget_s=25 if q else 600))
    return out


def bounds(tier):
    return dict(program_length=3 if tier == 'quick' else 4, object_pool=3 if tier == 'quick' else 4, edit_constant_nesting=2,
                opcodes=['instance set c', 'update c', 'class set c/d on P/Q', 'readonly set (instance/class/subclass)', 'edit_constant ENTER',
                         'EXIT', 'exceptional EXIT', 'set name', 'instance set d (default None)'])
