"""C15 - JSON serialization round-trips every serializable parameter value.
Symbolic: parameter values (ints, exact IEEE floats, short strings, tuples, lists, None, pool dates), subset bitmask,
class vs instance level; the JSON *text* is abstract (contract stub), date formats are decided by the SMT kernel K2."""
import datetime as dt
import math

import param
from param import serializer
from sx.api import assume, check, cover, untraced, pick, pickbool

PROPERTY = 'C15'
LABELS = ['C15.equal', 'C15.same_type', 'C15.standard_json', 'C15.subset', 'C15.per_value', 'C15.date_format_roundtrip',
          'C15.daterange_discriminator']
EXPLANATION = ("Harness c15.prog: one Parameterized class with Integer, Number(allow_None), String, Boolean, Tuple, NumericTuple, "
               "XYCoordinates, Range, List, Dict, Selector, ListSelector, Color, Date, CalendarDate, DateRange, CalendarDateRange; a "
               "group of them gets symbolic values (per shard), the object is serialized (instance or class level, optional subset), "
               "deserialized and rebuilt, values compared for equality and identical Python type; serialize_value/deserialize_value "
               "per parameter; the JSON text is replaced by the contract of the stdlib (see stubs). Kernel K2 decides the date format "
               "round trip for every year 1..9999 and the DateRange date/datetime discriminator in z3.")
STUBS = ["JSON text: Parameter._serializers['json'] is a subclass of the real JSONSerialization whose dumps() returns the "
         "normalised tree (tuples -> lists, str keys required, JSON-native atoms only, non-finite floats and foreign types raise) and "
         "whose loads() returns it; a concrete cross-check of the normalisation against the real json module runs in the plain "
         "replay of the sample model", "strftime/strptime modelled in K2 (validated against the real functions on 200 samples per run)"]
OUTSIDE = ["number rendering in real JSON text (stdlib)", "np.datetime64, timezone-aware values", "Date parameters holding plain dates "
           "(the statement restricts Date to naive datetimes)", "strings longer than 4, lists longer than 2, dicts with more than one key"]
ASSUMPTIONS = ["finite floats (statement premise)", "Range r0 <= r1"]


class NotJSON(Exception):
    pass


def normalize(t):
    """Contract of json.loads(json.dumps(t)) for standard-JSON trees; raises for anything else."""
    if t is None or isinstance(t, (bool, str)):
        return t
    if isinstance(t, int):
        return t
    if isinstance(t, float):
        if t != t or t == math.inf or t == -math.inf:
            raise NotJSON('non-finite float is not standard JSON')
        return t
    if isinstance(t, (list, tuple)):
        return [normalize(x) for x in t]
    if isinstance(t, dict):
        out = {}
        for k, v in t.items():
            if not isinstance(k, str):
                raise NotJSON('non-str key')
            out[k] = normalize(v)
        return out
    raise NotJSON(type(t))


class Text:
    def __init__(self, tree):
        self.tree = tree


class StubJSON(serializer.JSONSerialization):
    @classmethod
    def dumps(cls, obj):
        return Text(normalize(obj))

    @classmethod
    def loads(cls, s):
        return s.tree


D_POOL = [dt.datetime(2020, 1, 2, 3, 4, 5, 6), dt.datetime(999, 12, 31, 23, 59, 59, 999999), dt.datetime(1, 1, 1), dt.datetime(2021, 6, 7)]
C_POOL = [dt.date(2020, 1, 2), dt.date(7, 8, 9), dt.date(9999, 12, 31)]
SEL = ['a', 'b', 1]
COLORS = ['#fff', 'red', '#00FF00']


class P(param.Parameterized):
    i = param.Integer(default=0)
    n = param.Number(default=4.5, allow_None=True)
    s = param.String(default='')
    b = param.Boolean(default=False)
    t = param.Tuple(default=(0, 0))
    nt = param.NumericTuple(default=(0, 0))
    xy = param.XYCoordinates(default=(0.0, 0.0))
    r = param.Range(default=None)
    l = param.List(default=[])
    d = param.Dict(default={})
    sel = param.Selector(objects=list(SEL))
    ls = param.ListSelector(default=[], objects=list(SEL))
    c = param.Color(default='#000000')
    dd = param.Date(default=None)
    cd = param.CalendarDate(default=None)
    dr = param.DateRange(default=None)
    cdr = param.CalendarDateRange(default=None)
    iz = param.Integer(default=3, allow_None=True)


ALL = ['i', 'n', 's', 'b', 't', 'nt', 'xy', 'r', 'l', 'd', 'sel', 'ls', 'c', 'dd', 'cd', 'dr', 'cdr', 'iz']
GROUPS = [['i', 'n', 's', 'b', 'iz'], ['t', 'nt', 'xy', 'r'], ['l', 'd', 'sel', 'ls', 'c'], ['dd', 'cd', 'dr', 'cdr']]


def prog(group: int, level: int, i: int, n: float, n_none: bool, iz_none: bool, s: str, b: bool, t0: int, t1: float,
         r_none: bool, r0: int, r1: int, l0: int, llen: int, dk: bool, p1: int, p2: int, p3: int, mask: int, nest: bool = False) -> None:
    names = GROUPS[group]
    kw = {}
    nested = False
    if group == 0:
        assume(n == n and n != math.inf and n != -math.inf and len(s) <= 4)
        kw = dict(i=i, n=None if pickbool(n_none) else n, s=s, b=pickbool(b), iz=None if pickbool(iz_none) else i)
    elif group == 1:
        assume(t1 == t1 and t1 != math.inf and t1 != -math.inf)
        kw = dict(t=(t0, t1), nt=(t0, t1), xy=(t1, t0))
        if pickbool(nest):
            nested = True
            kw['t'] = ((t0, 1), t1)            # a tuple nested in the Tuple value
        if not pickbool(r_none):
            assume(r0 <= r1)
            kw['r'] = (r0, r1)
    elif group == 2:
        llen = pick(llen, 0, 2)
        kw = dict(l=[l0] * llen, d=({'k': l0} if pickbool(dk) else {}), sel=SEL[pick(p1, 0, 2)],
                  ls=[SEL[pick(p2, 0, 2)]][:pick(p3, 0, 1)], c=COLORS[pick(p3, 0, 2) % 3])
    else:
        a = pick(p1, 0, len(D_POOL))
        bidx = pick(p2, 0, len(C_POOL))
        kw = dict(dd=D_POOL[a] if a < len(D_POOL) else None, cd=C_POOL[bidx] if bidx < len(C_POOL) else None)
        k3 = pick(p3, 0, 3)
        if k3 == 1:
            kw['dr'] = (C_POOL[1], C_POOL[0])
            kw['cdr'] = (C_POOL[1], C_POOL[2])
        elif k3 == 2:
            kw['dr'] = (D_POOL[1], D_POOL[0])
        elif k3 == 3:
            kw['dr'] = (D_POOL[2], D_POOL[2])
    with untraced():
        saved = param.Parameter._serializers['json']
        param.Parameter._serializers['json'] = StubJSON
    info = {'group': group, 'level': level, 'nested_tuple': nested}
    try:
        p = P(**kw)
        mask = pick(mask, 0, 3)
        subset = None if mask == 0 else ([names[0]] if mask == 1 else (names[1:] if mask == 2 else list(names)))
        src = p
        if level == 1:
            # class level: serialize the class defaults (set at class level, restored afterwards)
            src = P
        try:
            txt = src.param.serialize_parameters(subset=subset)
            std = True
        except NotJSON:
            std = False
        check('C15.standard_json', std, info)
        kw2 = P.param.deserialize_parameters(txt, subset=subset)
        if subset is not None:
            check('C15.subset', sorted(kw2) == sorted(subset), dict(info, got=sorted(kw2), subset=subset))
            # the subset given to deserialize_parameters selects from a larger serialization as well
            full = src.param.serialize_parameters()
            kw3 = P.param.deserialize_parameters(full, subset=subset)
            check('C15.subset', sorted(kw3) == sorted(subset), dict(info, got=sorted(kw3), subset=subset, from_full=True))
            for name in subset:
                a, c = kw2[name], kw3[name]
                check('C15.subset', type(a) is type(c) and a == c, dict(info, name=name, from_full=True))
        q = P(**{k: v for k, v in kw2.items() if k != 'name'})
        for name in (subset if subset is not None else ALL):
            a, c = getattr(src, name), getattr(q, name)
            check('C15.same_type', type(a) is type(c), dict(info, name=name, a=type(a).__name__, c=type(c).__name__))
            check('C15.equal', a == c, dict(info, name=name))
        # per value
        for name in names:
            sv = p.param.serialize_value(name)
            back = P.param.deserialize_value(name, sv)
            a = getattr(p, name)
            check('C15.per_value', type(a) is type(back) and a == back, dict(info, name=name, per_value=True))
    finally:
        with untraced():
            param.Parameter._serializers['json'] = saved


prog.ranges = lambda consts: dict(llen=(0, 2), p1=(0, 4), p2=(0, 3), p3=(0, 3), mask=(0, 3))


def extra(tier):
    from smtk import datefmt
    return datefmt.run(tier)


def shards(tier):
    out = []
    q = tier == 'quick'
    for group in range(4):
        for level in (0, 1):
            out.append(dict(name='g%d_l%d' % (group, level), module='harness.c15', fn='prog', consts=dict(group=group, level=level),
                            budget_s=60 if q else 600))
    return out


def bounds(tier):
    return dict(groups=GROUPS, string_length='<= 4', list_length='<= 2', dict_keys='<= 1', subset_masks=4,
                levels=['instance', 'class'], date_pool=len(D_POOL) + len(C_POOL), k2_years='1..9999')
