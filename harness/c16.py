"""C16 - serialized state always validates against the generated JSON schema.
Symbolic: constraint configuration and a valid value per parameter type, an out-of-bound numeric probe; the validator
inside the symbolic run is a small JSON-Schema evaluator that works on symbolic numbers, the real `jsonschema` package
is used whenever the harness runs on concrete values (witness and counterexample replays)."""
import datetime as dt
import math

import param
from sx.api import assume, check, cover, untraced, pick, pickbool, is_symbolic_run

PROPERTY = 'C16'
LABELS = ['C16.wellformed', 'C16.valid_state_validates', 'C16.out_of_bounds_rejected', 'C16.nullable', 'C16.evaluators_agree']
EXPLANATION = ("Harness c16.prog: one parameter per path (Integer, Number, Range, Tuple, NumericTuple, XYCoordinates, String, Boolean, "
               "Date, CalendarDate, List, Dict, Selector list-/dict-declared, ListSelector, ClassSelector) declared from a symbolic "
               "configuration (bounds presence/values/inclusivity, allow_None, length, item type, objects) with a valid symbolic value; "
               "param.schema() must be well-formed, the serialized value must validate, None must validate iff allow_None, and a "
               "symbolic numeric probe outside the hard bounds of an Integer/Number must be rejected.")
STUBS = ["JSON-Schema evaluation inside the symbolic run by a ~60-line evaluator of the keywords param emits (type, anyOf, enum, "
         "minimum/maximum/exclusive*, minItems/maxItems, items, properties; additionalItems without an items array and format are "
         "annotations); on concrete runs the real jsonschema package (Draft 7) must agree with it"]
OUTSIDE = ["Selector/ListSelector left at a None default while allow_None is False (tolerated as unset default, not assignable)", "Array/DataFrame/Series", "nested Parameterized schemas", "text-level JSON"]
ASSUMPTIONS = ["lo <= hi", "the declaration itself is valid", "finite floats"]
TYPES = {'integer', 'number', 'string', 'boolean', 'array', 'object', 'null'}
KEYWORDS = {'type', 'anyOf', 'enum', 'minimum', 'maximum', 'exclusiveMinimum', 'exclusiveMaximum', 'minItems', 'maxItems',
            'items', 'additionalItems', 'properties', 'format', 'description', 'title'}
KINDS = ['Integer', 'Number', 'Range', 'Tuple', 'NumericTuple', 'XYCoordinates', 'String', 'Boolean', 'Date', 'CalendarDate',
         'List', 'Dict', 'Selector', 'SelectorDict', 'ListSelector', 'ClassSelector']


def wellformed(s):
    if not isinstance(s, dict):
        return False
    for k, v in s.items():
        if k not in KEYWORDS:
            return False
        if k == 'type' and v not in TYPES:
            return False
        if k == 'anyOf' and not (isinstance(v, list) and all(wellformed(x) for x in v)):
            return False
        if k in ('items', 'additionalItems') and not wellformed(v):
            return False
        if k == 'enum' and not isinstance(v, list):
            return False
        if k in ('minItems', 'maxItems') and not (isinstance(v, int) and v >= 0):
            return False
    return True


def is_type(v, t):
    if t == 'null':
        return v is None
    if t == 'boolean':
        return isinstance(v, bool)
    if t == 'integer':
        return isinstance(v, int) and not isinstance(v, bool)
    if t == 'number':
        return isinstance(v, (int, float)) and not isinstance(v, bool)
    if t == 'string':
        return isinstance(v, str)
    if t == 'array':
        return isinstance(v, list)
    if t == 'object':
        return isinstance(v, dict)
    return False


def validates(s, v):
    if 'type' in s and not is_type(v, s['type']):
        return False
    if 'anyOf' in s and not any(validates(x, v) for x in s['anyOf']):
        return False
    if 'enum' in s and not any((v == e and type(v) is type(e)) for e in s['enum']):
        return False
    if isinstance(v, (int, float)) and not isinstance(v, bool):
        if 'minimum' in s and not v >= s['minimum']:
            return False
        if 'maximum' in s and not v <= s['maximum']:
            return False
        if 'exclusiveMinimum' in s and not v > s['exclusiveMinimum']:
            return False
        if 'exclusiveMaximum' in s and not v < s['exclusiveMaximum']:
            return False
    if isinstance(v, list):
        if 'minItems' in s and len(v) < s['minItems']:
            return False
        if 'maxItems' in s and len(v) > s['maxItems']:
            return False
        if isinstance(s.get('items'), dict) and not all(validates(s['items'], x) for x in v):
            return False
    return True


def jsonify(v):
    if isinstance(v, (tuple, list)):
        return [jsonify(x) for x in v]
    return v


def _real_validates(schema, value):
    import jsonschema
    try:
        jsonschema.Draft7Validator.check_schema(schema)
        jsonschema.validate(value, schema, cls=jsonschema.Draft7Validator)
        return True
    except jsonschema.ValidationError:
        return False


def _inb(v, has_lo, lo, inc_lo, has_hi, hi, inc_hi):
    ok = True
    if has_lo:
        ok = ok and ((v >= lo) if inc_lo else (v > lo))
    if has_hi:
        ok = ok and ((v <= hi) if inc_hi else (v < hi))
    return ok


def _body(kind, has_lo, lo, has_hi, hi, inc_lo, inc_hi, an, v, is_none, probe, cfg, pi):
    has_lo, has_hi, inc_lo, inc_hi, an, is_none = (pickbool(x) for x in (has_lo, has_hi, inc_lo, inc_hi, an, is_none))
    name = KINDS[kind]
    bounds = (lo if has_lo else None, hi if has_hi else None)
    if has_lo and has_hi:
        assume(lo <= hi)
    val = None
    if name in ('Integer', 'Number'):
        if not is_none:
            assume(_inb(v, has_lo, lo, inc_lo, has_hi, hi, inc_hi))
            val = v
        T = param.Integer if name == 'Integer' else param.Number
        stp = [None, 5, 2][pick(cfg, 0, 2)]      # `step` is a UI hint: every in-bounds value stays a valid state
        decl = lambda: T(default=val, bounds=bounds, inclusive_bounds=(inc_lo, inc_hi), allow_None=an, step=stp)
    elif name == 'Range':
        if not is_none:
            assume(_inb(v, has_lo, lo, inc_lo, has_hi, hi, inc_hi))
            val = (v, v)
        decl = lambda: param.Range(default=val, bounds=bounds, inclusive_bounds=(inc_lo, inc_hi), allow_None=an)
    elif name == 'Tuple':
        L = pick(cfg, 0, 3)
        val = None if is_none else (v,) * L
        decl = lambda: param.Tuple(default=val, length=L, allow_None=an)
    elif name in ('NumericTuple', 'XYCoordinates'):
        val = None if is_none else (v, v)
        T = param.NumericTuple if name == 'NumericTuple' else param.XYCoordinates
        decl = lambda: T(default=val, length=2, allow_None=an) if name == 'NumericTuple' else T(default=val, allow_None=an)
    elif name == 'String':
        val = None if is_none else ['', 'a', 'null'][pick(pi, 0, 2)]
        decl = lambda: param.String(default=val, allow_None=an)
    elif name == 'Boolean':
        val = None if is_none else pickbool(inc_lo)
        decl = lambda: param.Boolean(default=val, allow_None=an)
    elif name == 'Date':
        val = None if is_none else [dt.datetime(2020, 1, 2, 3, 4, 5), dt.datetime(999, 1, 1)][pick(pi, 0, 1)]
        decl = lambda: param.Date(default=val, allow_None=an)
    elif name == 'CalendarDate':
        val = None if is_none else [dt.date(2020, 1, 2), dt.date(5, 1, 1)][pick(pi, 0, 1)]
        decl = lambda: param.CalendarDate(default=val, allow_None=an)
    elif name == 'List':
        it = [None, int, str][pick(cfg, 0, 2)]
        n = pick(pi, 0, 2)
        item = v if it is not str else 'a'
        val = None if is_none else [item] * n
        decl = lambda: param.List(default=val, item_type=it, allow_None=an)
    elif name == 'Dict':
        val = None if is_none else ({'k': v} if pickbool(inc_hi) else {})
        decl = lambda: param.Dict(default=val, allow_None=an)
    elif name in ('Selector', 'SelectorDict'):
        objs = [1, 'a', 2.5, None][:pick(cfg, 1, 4)]
        i = pick(pi, 0, 3)
        assume(i < len(objs))
        val = None if is_none else objs[i]
        if name == 'Selector':
            decl = lambda: param.Selector(default=val, objects=list(objs), allow_None=an)
        else:
            decl = lambda: param.Selector(default=val, objects={'n%d' % j: o for j, o in enumerate(objs)}, allow_None=an)
    elif name == 'ListSelector':
        objs = [1, 'a', 2.5]
        i = pick(pi, 0, 3)
        val = None if is_none else objs[:i]
        decl = lambda: param.ListSelector(default=val, objects=list(objs), allow_None=an)
    else:
        ci = pick(cfg, 0, 2)
        cls = [int, str, (int, str)][ci]
        val = None if is_none else [v, 'a', v][ci]
        decl = lambda: param.ClassSelector(class_=cls, default=val, allow_None=an)
    try:
        class P(param.Parameterized):
            x = decl()
    except (ValueError, TypeError):
        assume(False)
    info = {'kind': name, 'allow_None': an, 'is_none': is_none}
    # a Selector tolerates None as an (unset) default without allow_None, but would reject it as an assigned value:
    # such a None is not a valid state of the parameter
    assume(not (val is None and not P.param.x.allow_None))
    sch = P.param.schema()['x']
    check('C16.wellformed', wellformed(sch), dict(info, schema=repr(sch)))
    ser = jsonify(P.param.x.serialize(P.x))
    ok = validates(sch, ser)
    check('C16.valid_state_validates', ok, dict(info, schema=repr(sch), ser=repr(ser)))
    eff_an = P.param.x.allow_None
    check('C16.nullable', validates(sch, None) or not eff_an, dict(info, schema=repr(sch)))
    rej = None
    if name in ('Integer', 'Number') and (has_lo or has_hi):
        if not _inb(probe, has_lo, lo, inc_lo, has_hi, hi, inc_hi):
            rej = not validates(sch, probe)
            check('C16.out_of_bounds_rejected', rej, dict(info, schema=repr(sch), probe=probe))
    if not is_symbolic_run():
        # concrete run (witness / counterexample replay): the real jsonschema package must agree with the evaluator
        check('C16.evaluators_agree', _real_validates(sch, ser) == ok, dict(info, schema=repr(sch), ser=repr(ser)))
        if rej is not None:
            check('C16.evaluators_agree', (not _real_validates(sch, probe)) == rej, dict(info, probe=probe))
    else:
        check('C16.evaluators_agree', True)


def prog_i(kind: int, has_lo: bool, lo: int, has_hi: bool, hi: int, inc_lo: bool, inc_hi: bool, an: bool, v: int, is_none: bool,
           probe: int, cfg: int, pi: int) -> None:
    _body(kind, has_lo, lo, has_hi, hi, inc_lo, inc_hi, an, v, is_none, probe, cfg, pi)


def prog_f(kind: int, has_lo: bool, lo: float, has_hi: bool, hi: float, inc_lo: bool, inc_hi: bool, an: bool, v: float, is_none: bool,
           probe: float, cfg: int, pi: int) -> None:
    assume(lo == lo and hi == hi and v == v and probe == probe and abs(v) != math.inf and abs(lo) != math.inf and abs(hi) != math.inf)
    _body(kind, has_lo, lo, has_hi, hi, inc_lo, inc_hi, an, v, is_none, probe, cfg, pi)


def adopt(decl_dict: bool, pi: int, an: bool) -> None:
    """check_on_set=False: a value outside the declared objects is adopted (added to the objects); the state stays valid."""
    an = pickbool(an)
    objs = [1, 'a']
    extra = [3, 'zz', 2.5][pick(pi, 0, 2)]
    with untraced():
        class P(param.Parameterized):
            x = param.Selector(objects=({'one': 1, 'two': 'a'} if decl_dict else list(objs)), check_on_set=False, allow_None=an)
        p = P()
    p.x = extra
    info = {'kind': 'Selector check_on_set=False', 'allow_None': an, 'is_none': False, 'dict_declared': decl_dict}
    sch = p.param.schema()['x']
    check('C16.wellformed', wellformed(sch), dict(info, schema=repr(sch)))
    ser = jsonify(p.param.x.serialize(p.x))
    check('C16.valid_state_validates', validates(sch, ser), dict(info, schema=repr(sch), ser=repr(ser)))


adopt.ranges = lambda consts: dict(pi=(0, 2))


def cdf(cos: bool, pi: int, decl_dict: bool, level: int) -> None:
    """A Selector whose default is computed (compute_default_fn) after declaration, possibly to a value outside the declared
    objects: the computed default is a valid state, so it must validate against the schema generated afterwards."""
    cos, decl_dict = pickbool(cos), pickbool(decl_dict)
    val = ['a', 'c', 3][pick(pi, 0, 2)]
    with untraced():
        class P(param.Parameterized):
            x = param.Selector(objects=({'one': 1, 'two': 'a'} if decl_dict else [1, 'a']), default=None, check_on_set=cos,
                               compute_default_fn=lambda: val)
    pobj = P.param.x
    if level == 1:
        pobj = P().param.x       # per-instance Parameter object
    pobj.compute_default()
    info = {'kind': 'Selector compute_default_fn', 'check_on_set': cos, 'dict_declared': decl_dict, 'value': repr(val), 'level': level,
            'allow_None': False, 'is_none': False}
    check('C16.valid_state_validates', pobj.default == val, dict(info, default=repr(pobj.default)))
    p = P()
    owner = p if level == 0 else pobj.owner
    sch = owner.param.schema()['x']
    check('C16.wellformed', wellformed(sch), dict(info, schema=repr(sch)))
    ser = jsonify(pobj.serialize(pobj.default))
    check('C16.valid_state_validates', validates(sch, ser), dict(info, schema=repr(sch), ser=repr(ser)))


cdf.ranges = lambda consts: dict(pi=(0, 2))


def inst_i(typ: int, has_lo: bool, lo: int, has_hi: bool, hi: int, inc_lo: bool, inc_hi: bool, v: int, probe: int) -> None:
    """Per-instance Parameter objects: bounds edited on the instance govern both the state and the instance's schema."""
    has_lo, has_hi, inc_lo, inc_hi = (pickbool(x) for x in (has_lo, has_hi, inc_lo, inc_hi))
    if has_lo and has_hi:
        assume(lo <= hi)
    T = param.Integer if typ == 0 else param.Number
    with untraced():
        class P(param.Parameterized):
            x = T(default=0, bounds=(-5, 5))
        p = P()
    p.param.x.bounds = (lo if has_lo else None, hi if has_hi else None)
    p.param.x.inclusive_bounds = (inc_lo, inc_hi)
    assume(_inb(v, has_lo, lo, inc_lo, has_hi, hi, inc_hi))
    p.x = v
    info = {'kind': 'instance-level ' + T.__name__, 'allow_None': False, 'is_none': False}
    sch = p.param.schema()['x']
    check('C16.wellformed', wellformed(sch), dict(info, schema=repr(sch)))
    ser = jsonify(p.param.x.serialize(p.x))
    check('C16.valid_state_validates', validates(sch, ser), dict(info, schema=repr(sch), ser=repr(ser)))
    if (has_lo or has_hi) and not _inb(probe, has_lo, lo, inc_lo, has_hi, hi, inc_hi):
        check('C16.out_of_bounds_rejected', not validates(sch, probe), dict(info, schema=repr(sch), probe=probe))
    # the class-level schema still describes the class-level constraints
    csch = P.param.schema()['x']
    check('C16.valid_state_validates', validates(csch, 0) and not validates(csch, 6), dict(info, cls_schema=repr(csch)))


prog_i.ranges = lambda consts: dict(cfg=(0, 4), pi=(0, 3))
prog_f.ranges = lambda consts: dict(cfg=(0, 4), pi=(0, 3))


def shards(tier):
    out = []
    q = tier == 'quick'
    for kind in range(len(KINDS)):
        for an in (False, True):
            c = dict(kind=kind, an=an)
            if KINDS[kind] not in ('Integer', 'Number', 'Range'):
                c.update(has_lo=False, lo=0, has_hi=False, hi=0, probe=0)
            out.append(dict(name='%s_an%d_i' % (KINDS[kind], an), module='harness.c16', fn='prog_i', consts=c, budget_s=60 if q else 300))
    for dd in (False, True):
        out.append(dict(name='adopt_%d' % dd, module='harness.c16', fn='adopt', consts=dict(decl_dict=dd), budget_s=60 if q else 300))
    for level in (0, 1):
        out.append(dict(name='cdf_%d' % level, module='harness.c16', fn='cdf', consts=dict(level=level), budget_s=60 if q else 300))
    for typ in (0, 1):
        out.append(dict(name='inst_%d' % typ, module='harness.c16', fn='inst_i', consts=dict(typ=typ), budget_s=60 if q else 300))
    for kind in (1, 2):
        for an in (False, True):
            out.append(dict(name='%s_an%d_f' % (KINDS[kind], an), module='harness.c16', fn='prog_f', consts=dict(kind=kind, an=an),
                            budget_s=60 if q else 300))
    return out


def bounds(tier):
    return dict(kinds=KINDS, numeric='int configuration with int values over Z; float configuration with float values over finite IEEE doubles',
                selector_objects='prefixes of [1, "a", 2.5, None]', list_length='<= 2')
