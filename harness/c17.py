"""C17 - copies and pickles are faithful and independent.
Symbolic: pre-copy history, copy mechanism, post-copy history on either side (values realised at the copy boundary)."""
import copy
import functools
import pickle

import param
from sx.api import assume, check, cover, untraced, pick, pickbool

PROPERTY = 'C17'
LABELS = ['C17.queues_private', 'C17.multi_dep_once', 'C17.succeeds', 'C17.equal', 'C17.no_shared_state', 'C17.deps_work', 'C17.independent', 'C17.foreign_watcher_kept',
          'C17.refs_work_on_copy']
SHADOWED_BY_KNOWN = {}      # every label is also reached by the shards without the sub-object dependency
EXPLANATION = ("Harness c17.prog: an object with an Integer, a List, a sub-object, an allow_refs parameter, a depends(watch=True) "
               "method (optionally also depending on a parameter of the sub-object) and a watcher that is a bound method of another "
               "object; after a symbolic pre-history it is copied by copy.deepcopy or pickle (protocol 2 / 5), then a symbolic "
               "post-history runs on the original or the copy; copy succeeds, values / per-instance Parameter attributes / ordinary "
               "attributes are equal, no mutable state is shared, dependent methods and foreign watchers act on the right side only, "
               "reference links can be made and overridden on the copy.")
STUBS = ["the copy call itself runs natively on realised state (pickle's identity checks fail under the tracer); __getstate__/"
         "__setstate__ are the real ones"]
OUTSIDE = ["values outside [-2,2]", "async references", "class-level watchers"]
ASSUMPTIONS = ["values in [-2,2] realised before the copy boundary"]
N_PRE = 6
N_POST = 11


class Sub(param.Parameterized):
    v = param.Integer(default=0)


class Src(param.Parameterized):
    v = param.Integer(default=7)


class Helper:
    def __init__(self):
        self.calls = []

    def notify(self, event):
        self.calls.append(event.new)


class P(param.Parameterized):
    x = param.Integer(default=0)
    l = param.List(default=[1])
    sub = param.ClassSelector(class_=Sub, default=None)
    r = param.Integer(default=0, allow_refs=True)
    n = param.Integer(default=0)
    s = param.Selector(objects=[], check_on_set=False)
    y = param.Integer(default=0)
    n2 = param.Integer(default=0)
    nb = param.Integer(default=0)

    @param.depends('x', watch=True)
    def _m(self):
        self.n += 1

    @param.depends('x:bounds', watch=True)
    def _mb(self):              # a dependency on a Parameter attribute ('name:attribute' spec)
        self.nb += 1

    @param.depends('x', 'y', watch=True)
    def _m2(self):
        self.n2 += 1

    def _note(self, tag, event):
        self.notes = getattr(self, 'notes', []) + [(tag, event.new)]

    def _note_y(self, event):
        self.ynotes = getattr(self, 'ynotes', []) + [event.new]


class PSlot(P):
    """ordinary attributes may live in __slots__ of a subclass"""
    __slots__ = ['slotted']


class PS(P):
    @param.depends('x', 'sub.v', watch=True)
    def _m(self):
        self.n += 1


def prog(subdep: bool, mech: int, helper: bool, pre1: int, pv1: int, post1: int, side1: int, qv1: int, post2: int, side2: int,
         qv2: int) -> None:
    pv1 = pick(pv1, -2, 2)
    subdep = pickbool(subdep)
    helper = pickbool(helper)
    mech = pick(mech, 0, 2)
    pre1 = pick(pre1, 0, N_PRE - 1)
    K = PS if subdep else PSlot
    with untraced():
        p = K(sub=Sub())
        if not subdep:
            p.slotted = [pre1]
        h = Helper()
        src = Src()
        if helper:
            p.param.watch(h.notify, 'x')
            p.helper = h
            # a watcher that is a functools.partial of one of the object's own methods
            p.param.watch(functools.partial(p._note, 'tag'), 'x')
            # the handle of a watcher kept in an ordinary attribute: on the copy it must still designate the copy's watcher
            p._hw = p.param.watch(p._note_y, 'y')
    if pre1 == 0:
        p.x = pv1
    elif pre1 == 1:
        p.l.append(pv1)
    elif pre1 == 2:
        p.param.x.bounds = (-5, 5 + abs(pv1))
    elif pre1 == 3:
        p.extra = [pv1]
    info = {'subdep': subdep, 'mech': ['deepcopy', 'pickle2', 'pickle5'][mech], 'helper': helper, 'pre': pre1}
    cm = None
    if pre1 == 5:
        # the copy is taken while a batch is open on the original and an event is queued: the open batch and its queue
        # belong to the original, the copy dispatches immediately
        from param.parameterized import batch_call_watchers
        cm = batch_call_watchers(p)
        cm.__enter__()
        p.y = pv1 + 5
    with untraced():
        try:
            if mech == 0:
                q = copy.deepcopy(p)
            else:
                q = pickle.loads(pickle.dumps(p, protocol=2 if mech == 1 else 5))
            ok, err = True, None
        except Exception as e:      # noqa
            ok, err = False, '%s: %s' % (type(e).__name__, e)
    if cm is not None:
        cm.__exit__(None, None, None)
    check('C17.succeeds', ok, dict(info, err=err))
    check('C17.equal', q.x == p.x and q.l == p.l and q.param.x.bounds == p.param.x.bounds
          and getattr(q, 'extra', None) == getattr(p, 'extra', None) and q.sub.v == p.sub.v and q.n == p.n and q.r == p.r, info)
    if not subdep:
        check('C17.equal', getattr(q, 'slotted', None) == p.slotted, dict(info, slot_attribute=True))
        check('C17.no_shared_state', getattr(q, 'slotted', None) is not p.slotted, dict(info, slot_attribute=True))
    check('C17.no_shared_state', q.l is not p.l and q.sub is not p.sub and q.param.x is not p.param.x
          and (not hasattr(p, 'extra') or q.extra is not p.extra), info)
    objs = [p, q]
    hs = [h, getattr(q, 'helper', None)]
    for o, s, v in ((post1, side1, qv1), (post2, side2, qv2)):
        o = pick(o, 0, N_POST - 1)
        s = pick(s, 0, 1)
        v = pick(v, -2, 2)
        cover('C17.post%d' % o)
        me, other = objs[s], objs[1 - s]
        snap = (other.x, list(other.l), other.param.x.bounds, other.n, other.sub.v, other.r)
        hsnap = [list(hh.calls) if hh is not None else None for hh in hs]
        n0 = me.n
        inf = dict(info, post=o, side=s)
        if o == 0:
            ch = me.x != v
            notes_me, notes_other = list(getattr(me, 'notes', [])), list(getattr(other, 'notes', []))
            me.x = v
            check('C17.deps_work', me.n == n0 + (1 if ch else 0), inf)
            if helper:
                check('C17.foreign_watcher_kept', getattr(me, 'notes', []) == notes_me + ([('tag', v)] if ch else [])
                      and getattr(other, 'notes', []) == notes_other, dict(inf, partial=True))
            if helper:
                mine = hs[s]
                check('C17.foreign_watcher_kept', mine is not None and mine.calls == hsnap[s] + ([v] if ch else []), inf)
                oth = hs[1 - s]
                check('C17.foreign_watcher_kept', oth is not None and oth.calls == hsnap[1 - s], dict(inf, other_side=True))
        elif o == 1:
            me.l.append(v)
        elif o == 2:
            nb0, nbo = me.nb, other.nb
            changed = me.param.x.bounds != (-9, 9 + abs(v))
            me.param.x.bounds = (-9, 9 + abs(v))
            check('C17.deps_work', me.nb == nb0 + (1 if changed else 0) and other.nb == nbo, dict(inf, slot_dependency=True, calls=me.nb - nb0))
        elif o == 3:
            ch = me.sub.v != v
            me.sub.v = v
            if subdep:
                check('C17.deps_work', me.n == n0 + (1 if ch else 0), dict(inf, sub=True))
        elif o == 4:
            try:
                me.r = src.param.v
                linked = True
            except Exception:       # noqa
                linked = False
            check('C17.refs_work_on_copy', linked and me.r == src.v, inf)
            snap = snap[:5] + (other.r,)
        elif o == 5:
            try:
                me.r = v
                okr = me.r == v
            except Exception:       # noqa
                okr = False
            check('C17.refs_work_on_copy', okr, inf)
        elif o == 9:
            # a batch open on one restored object does not capture (or get flushed by) assignments on another restored object
            from param.parameterized import batch_call_watchers
            with untraced():
                q2 = copy.deepcopy(q) if mech == 0 else pickle.loads(pickle.dumps(q, protocol=2 if mech == 1 else 5))
            a, b = (q, q2) if s == 1 else (q2, q)
            na, nb = a.n, b.n
            with batch_call_watchers(a):
                a.x = a.x + 1
                b.x = b.x + 1
                check('C17.queues_private', b.n == nb + 1 and a.n == na, dict(inf, inside=True, a=a.n - na, b=b.n - nb))
            check('C17.queues_private', a.n == na + 1 and b.n == nb + 1, dict(inf, a=a.n - na, b=b.n - nb))
            snap = (other.x, list(other.l), other.param.x.bounds, other.n, other.sub.v, other.r)
        elif o == 8:
            # one update changing both dependencies of _m2: exactly one call, on this side only
            k2, ko = me.n2, other.n2
            me.param.update(x=me.x + 1, y=me.y + 1)
            check('C17.multi_dep_once', me.n2 == k2 + 1 and other.n2 == ko, dict(inf, calls=me.n2 - k2))
            snap = (other.x, list(other.l), other.param.x.bounds, other.n, other.sub.v, other.r)
        elif o == 10:
            assume(helper)
            yo = list(getattr(other, 'ynotes', []))
            me.y = me.y + 1
            ym = list(getattr(me, 'ynotes', []))
            check('C17.foreign_watcher_kept', ym[-1:] == [me.y] and getattr(other, 'ynotes', []) == yo, dict(inf, handle=True, before_unwatch=True))
            me.param.unwatch(me._hw)          # the stored handle removes this side's watcher ...
            me.y = me.y + 1
            check('C17.foreign_watcher_kept', getattr(me, 'ynotes', []) == ym, dict(inf, handle=True, after_unwatch=True))
            other.y = other.y + 1             # ... and only this side's
            check('C17.foreign_watcher_kept', getattr(other, 'ynotes', []) == yo + [other.y], dict(inf, handle=True, other_side=True))
            me._hw = me.param.watch(me._note_y, 'y')
            snap = (other.x, list(other.l), other.param.x.bounds, other.n, other.sub.v, other.r)
        elif o == 7:
            so = list(other.param.s.objects)
            sc = list(type(me).param.s.objects)
            me.param.s.objects.append(v)
            check('C17.independent', list(other.param.s.objects) == so and list(type(me).param.s.objects) == sc,
                  dict(inf, what='Selector.objects of the per-instance Parameter'))
        else:
            src.v = 10 + v
        now = (other.x, list(other.l), other.param.x.bounds, other.n, other.sub.v, other.r)
        if o != 6:
            check('C17.independent', now == snap, inf)


prog.ranges = lambda consts: dict(mech=(0, 2), pre1=(0, N_PRE - 1), pv1=(-2, 2), post1=(0, N_POST - 1), post2=(0, N_POST - 1),
                                  side1=(0, 1), side2=(0, 1), qv1=(-2, 2), qv2=(-2, 2))


def shards(tier):
    out = []
    q = tier == 'quick'
    for subdep in (False, True):
        for mech in range(3):
            for helper in (False, True):
                for pre1 in range(N_PRE):
                    if q and subdep and (helper or pre1 > 0):
                        continue
                    for post1 in (range(N_POST) if not subdep else (0,)):
                        c = dict(subdep=subdep, mech=mech, helper=helper, pre1=pre1, post1=post1)
                        if q:
                            c.update(qv1=1, qv2=-1, pv1=2)
                        out.append(dict(name='sd%d_m%d_h%d_p%d_%d' % (subdep, mech, helper, pre1, post1), module='harness.c17',
                                        fn='prog', consts=c, budget_s=60 if q else 300))
    return out


def bounds(tier):
    return dict(pre_history=1, pre_ops=['set x', 'append to l', 'edit x.bounds', 'ordinary attribute', 'nothing', 'copy taken inside an open batch with a queued event'], post_history=2, mechanisms=['copy.deepcopy', 'pickle protocol 2', 'pickle protocol 5'],
                values='fixed (2, 1, -1)' if tier == 'quick' else '[-2,2]',
                post_ops=['set x', 'append to l', 'edit x.bounds', 'set sub.v', 'link r to a source Parameter', 'set r plain', 'update the source', 'append to the per-instance Selector.objects', 'update(x, y) with a two-parameter dependent method', 'batch on one restored object while another is assigned', 'unwatch through a watcher handle kept in an ordinary attribute'])
