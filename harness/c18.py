"""C18 - a Selector's objects list, names and range stay consistent under mutation.
Symbolic: opcode, index, key choice, object choice per step; concrete (shard): declaration style,
Selector kind, level (class / instance Parameter), first opcode."""
from collections import OrderedDict

import param
from sx.api import assume, check, cover, untraced, pick

PROPERTY = 'C18'
LABELS = ['C18.list_view', 'C18.names_view', 'C18.items_view', 'C18.range_view', 'C18.pop_returns',
          'C18.one_event', 'C18.membership_current', 'C18.same_exception', 'C18.failed_op_no_change']
EXPLANATION = ("Harness c18.prog: k mutation steps on Selector.objects (ListProxy) with symbolic opcode/index/key/"
               "object choice against a Python list + ordered-dict model; views compared after every step.")
STUBS = []
OUTSIDE = ["mixed-style operations (list-style mutators on dict-declared selectors and vice versa, which param "
           "itself flags as deprecated)", "non-unique or unhashable objects", "slices", "FileSelector/MultiFileSelector",
           "histories longer than k"]
ASSUMPTIONS = ["indices in [-n-1, n+1]; objects are unique strings from a pool of 8; keys from a pool of 5",
               "check_on_set=True (objects supplied at declaration)"]

OBJS = [('A',), ('B',), ('C',), ('D',), ('E',), ('F',), ('G',), ('H',), ('I',), ('J',), ('K',)]      # objects with equal-but-distinct copies


def _fresh(o):
    return tuple(list(o))
KEYS = ['k0', 'k1', 'k2', 'k3', 'k4', '']      # the empty string is a legitimate (falsy) name
N_LIST_OPS = 10
N_DICT_OPS = 8


def _exc(f):
    try:
        return ('ok', f())
    except (IndexError, KeyError, ValueError, TypeError) as e:
        return ('exc', type(e).__name__)


def prog(style: int, kind: int, level: int, k: int, cos: bool,
         o1: int, i1: int, j1: int, o2: int, i2: int, j2: int, o3: int, i3: int, j3: int) -> None:
    # style/kind/level/k are shard constants
    nops = N_LIST_OPS if style == 0 else N_DICT_OPS
    steps = ((o1, i1, j1), (o2, i2, j2), (o3, i3, j3))[:k]
    with untraced():
        cls = param.Selector if kind == 0 else param.ListSelector
        if style == 0:
            init = [OBJS[0], OBJS[1], OBJS[2]]
            model = [(None, x) for x in init]
            decl = list(init)
        else:
            decl = OrderedDict([('k0', OBJS[0]), ('k1', OBJS[1]), ('k2', OBJS[2])])
            model = list(decl.items())

        class P(param.Parameterized):
            s = cls(objects=decl, check_on_set=cos)
        inst = P()
        sel = inst.param.s if level == 1 else P.param.s
        events = []
        changed_events = []
        (inst if level == 1 else P).param.watch(lambda e: events.append(e), 's', what='objects', onlychanged=False)
        (inst if level == 1 else P).param.watch(lambda e: changed_events.append(e), 's', what='objects')
    fresh = 3
    for o, i, j in steps:
        n = len(model)
        nev = len(events)
        ncev = len(changed_events)
        before = list(model)
        mutation = True
        noop = False
        res = exp = None
        if style == 0:
            cover('list.op%d' % pick(o, 0, nops - 1))
            if o == 0:
                res = _exc(lambda: sel.objects.append(OBJS[fresh])); model.append((None, OBJS[fresh])); exp = ('ok', None); fresh += 1
            elif o == 1:
                assume(-n - 1 <= i <= n + 1)
                res = _exc(lambda: sel.objects.insert(i, OBJS[fresh])); model.insert(i, (None, OBJS[fresh])); exp = ('ok', None); fresh += 1
            elif o == 2:
                res = _exc(lambda: sel.objects.extend([OBJS[fresh], OBJS[fresh + 1]]))
                model.extend([(None, OBJS[fresh]), (None, OBJS[fresh + 1])]); exp = ('ok', None); fresh += 2
            elif o == 3:
                assume(-n - 1 <= i <= n)
                res = _exc(lambda: sel.objects.__setitem__(i, OBJS[fresh]))
                def m():
                    model[i] = (None, OBJS[fresh])
                exp = _exc(m); fresh += 1
            elif o == 4:
                assume(-n - 1 <= i <= n)
                res = _exc(lambda: sel.objects.pop(i))
                exp = _exc(lambda: model.pop(i)[1])
            elif o == 5:
                res = _exc(lambda: sel.objects.pop())
                exp = _exc(lambda: model.pop()[1])
            elif o == 6:
                assume(0 <= i <= fresh)
                target = _fresh(OBJS[pick(i, 0, fresh)])      # an equal copy; OBJS[fresh] was never inserted
                res = _exc(lambda: sel.objects.remove(target))
                exp = _exc(lambda: model.remove((None, target)))
            elif o == 7:
                res = _exc(lambda: sel.objects.clear()); model.clear(); exp = ('ok', None)
            elif o == 8:
                new = [OBJS[fresh], OBJS[fresh + 1]]
                def repl():
                    sel.objects = list(new)
                res = _exc(repl); model[:] = [(None, x) for x in new]; exp = ('ok', None); fresh += 2
            else:
                mutation = False
        else:
            cover('dict.op%d' % pick(o, 0, nops - 1))
            if o in (0, 1, 2):
                key = KEYS[pick(j, 0, len(KEYS) - 1)]
            if o == 0 or o == 1:
                obj = OBJS[fresh]; fresh += 1
                pairs = [(key, obj)]
                if o == 0:
                    res = _exc(lambda: sel.objects.__setitem__(key, obj))
                else:
                    assume(0 <= i <= 3)
                    if i == 0:
                        res = _exc(lambda: sel.objects.update({key: obj}))
                    elif i == 1:
                        res = _exc(lambda: sel.objects.update([(key, obj)]))
                    elif i == 2:
                        res = _exc(lambda: sel.objects.update({}, **{key: obj}))
                    else:
                        obj2 = OBJS[fresh]; fresh += 1
                        pairs.append((KEYS[3], obj2))
                        res = _exc(lambda: sel.objects.update({key: obj}, **{KEYS[3]: obj2}))
                for kk2, oo2 in pairs:
                    ks = [kk for kk, _ in model]
                    if kk2 in ks:
                        model[ks.index(kk2)] = (kk2, oo2)
                    else:
                        model.append((kk2, oo2))
                exp = ('ok', None)
            elif o == 2:
                ks = [kk for kk, _ in model]
                if i >= 0:
                    res = _exc(lambda: sel.objects.pop(key))
                    if key in ks:
                        exp = ('ok', model.pop(ks.index(key))[1])
                    else:
                        exp = ('exc', 'KeyError')
                else:
                    # two-argument form: a missing key returns the default (here: an object that is in the list) and
                    # changes nothing
                    dflt = model[0][1] if model else OBJS[0]
                    res = _exc(lambda: sel.objects.pop(key, dflt))
                    if key in ks:
                        exp = ('ok', model.pop(ks.index(key))[1])
                    else:
                        exp = ('ok', dflt)
                        noop = True        # nothing changes: no event is required
            elif o == 3:
                assume(-n - 1 <= i <= n)
                res = _exc(lambda: sel.objects.pop(i))
                exp = _exc(lambda: model.pop(i)[1])
            elif o == 4:
                assume(0 <= i <= fresh)
                target = _fresh(OBJS[pick(i, 0, fresh)])        # an equal copy of the stored object
                res = _exc(lambda: sel.objects.remove(target))
                vs = [vv for _, vv in model]
                if target in vs:
                    model.pop(vs.index(target)); exp = ('ok', None)
                else:
                    exp = ('exc', 'ValueError')
            elif o == 5:
                res = _exc(lambda: sel.objects.clear()); model.clear(); exp = ('ok', None)
            elif o == 6:
                new = OrderedDict([(KEYS[4], OBJS[fresh]), (KEYS[0], OBJS[fresh + 1])])
                def repl():
                    sel.objects = OrderedDict(new)
                res = _exc(repl); model[:] = list(new.items()); exp = ('ok', None); fresh += 2
            else:
                mutation = False
        info = {'style': style, 'op': pick(o, 0, nops - 1), 'kind': kind, 'level': level}
        if mutation:
            if exp[0] == 'exc':
                check('C18.same_exception', res == exp, info)
                check('C18.failed_op_no_change', model == before, info)
            else:
                check('C18.same_exception', res[0] == 'ok', dict(info, res=res))
                if (style == 0 and o in (4, 5)) or (style == 1 and o in (2, 3)):
                    check('C18.pop_returns', res[1] == exp[1], dict(info, popkind=('int' if (style == 0 or o == 3) else 'key')))
                if not noop:
                    check('C18.one_event', len(events) == nev + 1, dict(info, n=len(events) - nev))
                if model != before and (style == 0 or all(kk is not None for kk, _ in list(model) + list(before))):
                    # a changes-only watcher is told about every mutation that changes the objects (when every object
                    # has a name: with unnamed, auto-added objects the event payload is the name mapping, which need not change)
                    check('C18.one_event', len(changed_events) == ncev + 1, dict(info, n=len(changed_events) - ncev, changes_only=True))
        else:
            # value assignment: membership checked against the *current* objects
            assume(0 <= i <= fresh)
            v = OBJS[pick(i, 0, fresh)]
            cur = [vv for _, vv in model]
            if level == 0:
                # the class-level Parameter is the one being mutated: an instance whose per-instance Parameter object was
                # created earlier (by an earlier assignment) keeps its own objects by design, so every assignment uses
                # a fresh instance, which is governed by the class-level objects as they are now
                with untraced():
                    inst = P()
            prev = inst.s
            try:
                inst.s = (v if kind == 0 else [v])
                accepted = True
            except ValueError:
                accepted = False
            if cos:
                check('C18.membership_current', accepted == (v in cur), dict(info, v=v))
            else:
                # check_on_set=False: every value is accepted and an unknown one is added to the objects (without a name)
                check('C18.membership_current', accepted, dict(info, v=v, cos=False))
                if v not in cur:
                    model.append((None, v))
                    if v == OBJS[fresh]:
                        fresh += 1          # keep later inserted objects unique
            check('C18.membership_current', inst.s == ((v if kind == 0 else [v]) if accepted else prev), dict(info, v=v, readback=True))
        objs = [vv for _, vv in model]
        named = style == 1 and len(model) > 0 or (style == 1 and bool(sel.names))
        check('C18.list_view', list(sel.objects) == objs, info)
        if style == 1:
            named = [(kk, vv) for kk, vv in model if kk is not None]
            check('C18.names_view', list(sel.names.items()) == named if named else not sel.names, info)
            if named:
                check('C18.items_view', list(sel.objects.items()) == named, info)
            check('C18.range_view', list(sel.get_range().items()) == [(kk if kk is not None else str(vv), vv) for kk, vv in model], info)
        else:
            check('C18.names_view', not sel.names, info)
            check('C18.items_view', list(sel.objects.items()) == [(str(x), x) for x in objs], info)      # unnamed objects are listed under str(object)
            check('C18.range_view', list(sel.get_range().items()) == [(str(x), x) for x in objs], info)


def _ranges(consts):
    nops = N_LIST_OPS if consts['style'] == 0 else N_DICT_OPS
    r = {}
    for n in ('o1', 'o2', 'o3'):
        r[n] = (0, nops - 1)
    for n in ('i1', 'i2', 'i3'):
        r[n] = (-10, 10)
    for n in ('j1', 'j2', 'j3'):
        r[n] = (0, len(KEYS) - 1)
    return r


prog.ranges = _ranges


def shards(tier):
    out = []
    k = 2 if tier == 'quick' else 3
    for style in (0, 1):
        nops = N_LIST_OPS if style == 0 else N_DICT_OPS
        for kind in (0, 1):
            for level in (0, 1):
                if tier != 'quick' and kind == 1 and level == 1:
                    continue
                for o1 in range(nops):
                    if tier == 'quick':
                        out.append(dict(name='s%dk%dl%d_o%d' % (style, kind, level, o1), module='harness.c18', fn='prog',
                                        consts=dict(style=style, kind=kind, level=level, k=k, o1=o1, o3=0, i3=0, j3=0, cos=True),
                                        budget_s=90))
                    else:
                        for o2 in range(nops):
                            out.append(dict(name='s%dk%dl%d_o%d_%d' % (style, kind, level, o1, o2), module='harness.c18',
                                            fn='prog', consts=dict(style=style, kind=kind, level=level, k=k, o1=o1, o2=o2, cos=True),
                                            budget_s=240))
    if tier == 'quick':
        # [assign a value, mutate the objects (possibly removing it), assign again]: membership against the current objects
        for style in (0, 1):
            assign = (N_LIST_OPS if style == 0 else N_DICT_OPS) - 1
            for kind in (0, 1):
                for o2 in ((3, 4, 5, 6, 7, 8) if style == 0 else (2, 3, 4, 5, 6)):
                    out.append(dict(name='re_s%dk%d_o%d' % (style, kind, o2), module='harness.c18', fn='prog',
                                    consts=dict(style=style, kind=kind, level=1, k=3, cos=True, o1=assign, o2=o2, o3=assign), budget_s=60))
    # check_on_set=False on a dict-declared Selector: [assign an unknown value, add a key, re-assign / pop / update that key ...]
    for o2 in range(N_DICT_OPS):
        for o3 in (range(N_DICT_OPS) if tier != 'quick' else (0, 1, 2)):
            out.append(dict(name='cosF_%d_%d' % (o2, o3), module='harness.c18', fn='prog',
                            consts=dict(style=1, kind=0, level=1, k=3, cos=False, o1=N_DICT_OPS - 1, o2=o2, o3=o3), budget_s=60))
    return out


def bounds(tier):
    return dict(k=2 if tier == 'quick' else 3, index_range='[-n-1, n+1]', object_pool='objects inserted so far + one absent',
                key_pool=len(KEYS), styles=['list', 'dict'], kinds=['Selector', 'ListSelector'],
                levels=['class Parameter', 'instance Parameter'])
