"""C19 - time-dependent dynamic values are a pure function of time.
Symbolic: sequence of k operations (time jumps, reads, inspections, nested time contexts incl. exits through StopIteration,
state push/pop, reads on a second instance) with times from a small range."""
import param
import numbergen
from sx.api import assume, check, cover, untraced, pick, pickbool

PROPERTY = 'C19'
LABELS = ['C19.read_leaves_time', 'C19.same_time_same_value', 'C19.inspect_pure', 'C19.order_independent', 'C19.instance_independent',
          'C19.context_restores_time', 'C19.push_pop_restores', 'C19.raises_again']
EXPLANATION = ("Harness c19.prog: two instances with a call-counting dynamic value, a time-function generator that raises at time 0, "
               "and a numbergen.UniformRandom(name, seed, time_dependent=True); k symbolic operations (set time, advance, read, "
               "inspect_value, nested `with time:` blocks left normally or by StopIteration from next(), _state_push/_state_pop, "
               "read on the second instance); a table keyed by (generator, time) must give the same value whatever the visiting "
               "order and instance, repeated reads at one time do not call the generator again, inspection never calls it, leaving "
               "a time context restores the time exactly, push/pop restores cached value and time stamp.")
STUBS = []
OUTSIDE = ["per-instance copies of a generator read at times other than the time of the copy (the time function is deep-copied with it)", "statistical quality of the hash", "time types other than int", "times outside [0,3]"]
ASSUMPTIONS = ["times in [0,3] (values are realised by struct.pack / hashing inside numbergen)"]
N_OPS = 11


class Gen:
    """Counts calls: any extra production is observable."""

    def __init__(self):
        self.n = 0

    def __call__(self):
        self.n += 1
        return self.n


class P(param.Parameterized):
    d = param.Dynamic(default=None)
    u = param.Number(default=0)
    z = param.Number(default=0)
    w = param.Number(default=0)


def prog(k: int, o1: int, t1: int, o2: int, t2: int, o3: int, t3: int, o4: int, t4: int, o5: int, t5: int) -> None:
    with untraced():
        old_td, old_fn = param.Dynamic.time_dependent, param.Dynamic.time_fn
        tm = param.Time(time_type=int, timestep=1)
        param.Dynamic.time_dependent = True
        param.Dynamic.time_fn = tm
    try:
        with untraced():
            g = Gen()
            zf = lambda: 100 // tm()          # raises ZeroDivisionError at time 0
            mk = lambda: numbergen.UniformRandom(name='u', seed=1, time_dependent=True, time_fn=tm)
            ts = lambda: numbergen.TimeSampledFn(period=2, offset=1, time_fn=tm,
                                                 fn=numbergen.UniformRandom(name='w', seed=3, time_dependent=True, time_fn=tm))
            class PC(param.Parameterized):
                # class-level default: every instance gets its own copy of the seeded generator
                cu = param.Number(default=numbergen.UniformRandom(name='cu', seed=7, time_dependent=True, time_fn=tm), instantiate=True)
                cg = param.Dynamic(default=None)
            pc1, pc2 = PC(), PC()
            gcls = Gen()
            PC.cg = gcls          # a class-level generator assigned after the instances exist: they follow it
            fresh = numbergen.UniformRandom(name='cu', seed=7, time_dependent=True, time_fn=tm)
            p = P(d=g, u=mk(), z=zf, w=ts())
            p2 = P(d=Gen(), u=mk(), z=zf, w=ts())
        wtable = {}
        utable = {}
        dtable = {}
        ctx = []           # saved times of open contexts
        pushed = []        # (time stamp, cached value, generator count) at push
        for step, (o, t) in enumerate(((o1, t1), (o2, t2), (o3, t3), (o4, t4), (o5, t5))[:k]):
            o = pick(o, 0, N_OPS - 1)
            t = pick(t, 0, 3)
            cover('C19.op%d' % o)
            info = {'op': o, 't': t, 'step': step, 'now': tm()}
            if o == 0:
                tm(t)
            elif o == 1:
                tm.advance(1)
                assume(tm() <= 3)
            elif o in (2, 7):
                obj = p if o == 2 else p2
                now = tm()
                n0 = g.n
                v = obj.d
                check('C19.same_time_same_value', obj.d == v, info)
                if o == 2:
                    if now in dtable:
                        check('C19.same_time_same_value', v == dtable[now][0] or dtable[now][1] != 'fresh', info)
                u = obj.u
                if now in utable:
                    check('C19.order_independent' if o == 2 else 'C19.instance_independent', utable[now] == u, dict(info, u=u, first=utable[now]))
                utable[now] = u
                check('C19.same_time_same_value', obj.u == u, info)
                wv = obj.w
                cgv = (pc1 if o == 2 else pc2).cg
                check('C19.same_time_same_value', (pc1 if o == 2 else pc2).cg == cgv, dict(info, class_level_generator=True))
                check('C19.read_leaves_time', tm() == now, dict(info, after=tm()))
                if now == 0:
                    # per-instance copies of a class-level seeded generator (the copy carries its own copy of the time
                    # function, so it is only comparable at the time the copy was made)
                    cv = (pc1 if o == 2 else pc2).cu
                    check('C19.instance_independent', cv == fresh() and cv == PC.cu, dict(info, copied_generator=True))
                if now in wtable:
                    check('C19.order_independent' if o == 2 else 'C19.instance_independent', wtable[now] == wv, dict(info, sampled=True))
                wtable[now] = wv
                # a generator that fails at this time fails on every read at this time, and works at the others
                for rep in range(2):
                    try:
                        zv = obj.z
                        raised = False
                    except ZeroDivisionError:
                        raised = True
                    except Exception as e:          # noqa  (anything else is a wrong outcome, reported through the label)
                        raised = type(e).__name__
                    check('C19.raises_again', raised is (now == 0) and (raised or zv == 100 // now), dict(info, rep=rep, raised=raised))
            elif o == 3:
                n0 = g.n
                p.param.inspect_value('d')
                p.param.inspect_value('u')
                check('C19.inspect_pure', g.n == n0, info)
            elif o == 4:        # enter a time context and move inside it
                assume(len(ctx) < 2)
                ctx.append(tm())
                tm.__enter__()
                tm(t)
            elif o == 5:        # leave normally
                assume(len(ctx) > 0)
                tm.__exit__(None, None, None)
                check('C19.context_restores_time', tm() == ctx.pop(), dict(info, now2=tm()))
            elif o == 8:        # leave through StopIteration raised by next() past `until`
                assume(len(ctx) > 0)
                before = ctx.pop()
                swallowed = False
                try:
                    try:
                        tm.until = tm()
                        next(tm)
                        next(tm)
                        next(tm)
                    except StopIteration as e:
                        swallowed = tm.__exit__(StopIteration, e, None)
                finally:
                    pass
                check('C19.context_restores_time', tm() == before and swallowed is True, dict(info, now2=tm(), swallowed=swallowed))
            elif o == 10:       # push, move on in time, read, pop: the caches are as at the push (instance- and class-level generators)
                assume(not pushed and tm() < 3)
                if t % 2 == 0:      # with or without a value cached before the push (an unread generator has none)
                    pc1.cg
                    p.d
                saved = [(getattr(x, '_Dynamic_time', None), getattr(x, '_Dynamic_last', None)) for x in (g, gcls)]
                t0 = tm()
                p.param._state_push()
                pc1.param._state_push()
                tm.advance(1)
                pc1.cg
                p.d
                if t >= 2:          # a second push/pop nested inside the first: each pop restores the state of its own push
                    mid = [(getattr(x, '_Dynamic_time', None), getattr(x, '_Dynamic_last', None)) for x in (g, gcls)]
                    p.param._state_push()
                    pc1.param._state_push()
                    tm.advance(1)
                    pc1.cg
                    p.d
                    pc1.param._state_pop()
                    p.param._state_pop()
                    tm(t0 + 1)
                    mid_ = [(getattr(x, '_Dynamic_time', None), getattr(x, '_Dynamic_last', None)) for x in (g, gcls)]
                    check('C19.push_pop_restores', mid_ == mid, dict(info, compact=True, nested='inner pop', saved=repr(mid), now=repr(mid_)))
                pc1.param._state_pop()
                p.param._state_pop()
                tm(t0)
                now_ = [(getattr(x, '_Dynamic_time', None), getattr(x, '_Dynamic_last', None)) for x in (g, gcls)]
                check('C19.push_pop_restores', now_[0] == saved[0], dict(info, compact=True, which='instance-level generator'))
                check('C19.push_pop_restores', now_[1] == saved[1], dict(info, compact=True, which='class-level generator', saved=repr(saved[1]), now=repr(now_[1])))
            elif o == 9:        # the class is read, then an instance is created and read for the first time at the same time
                assume(t <= 1)
                cls_v = PC.cu if t == 0 else None
                with untraced():
                    pcn = PC()
                try:
                    v = pcn.cu
                    err = None
                except Exception as e:      # noqa  a read that fails is a wrong outcome, reported through the label
                    v, err = None, type(e).__name__
                check('C19.instance_independent', err is None, dict(info, new_instance=True, class_read_first=(t == 0), raised=err))
                check('C19.same_time_same_value', pcn.cu == v, dict(info, new_instance=True))
                check('C19.instance_independent', v == PC.cu and (cls_v is None or v == cls_v), dict(info, new_instance=True, class_read_first=(t == 0), v=v))
            elif o == 6:
                if not pushed:
                    p.param._state_push()
                    pc1.param._state_push()
                    pushed.append((getattr(g, '_Dynamic_time', None), getattr(g, '_Dynamic_last', None),
                                   getattr(gcls, '_Dynamic_time', None), getattr(gcls, '_Dynamic_last', None)))
                else:
                    p.param._state_pop()
                    pc1.param._state_pop()
                    st, lv, cst, clv = pushed.pop()
                    check('C19.push_pop_restores', getattr(g, '_Dynamic_time', None) == st and getattr(g, '_Dynamic_last', None) == lv, info)
                    check('C19.push_pop_restores', getattr(gcls, '_Dynamic_time', None) == cst and getattr(gcls, '_Dynamic_last', None) == clv,
                          dict(info, class_level_generator=True))
        while ctx:
            tm.__exit__(None, None, None)
            check('C19.context_restores_time', tm() == ctx.pop(), {'final': True})
    finally:
        with untraced():
            param.Dynamic.time_dependent, param.Dynamic.time_fn = old_td, old_fn


def _ranges(consts):
    r = {}
    for n in (1, 2, 3, 4, 5):
        r['o%d' % n] = (0, N_OPS - 1)
        r['t%d' % n] = (0, 3)
    return r


prog.ranges = _ranges


def shards(tier):
    out = []
    q = tier == 'quick'
    k = 3 if q else 5
    for o1 in range(N_OPS):
        if o1 in (5, 8):
            continue
        if q and o1 in (3, 6):
            continue       # quick: programs do not start with inspect_value / _state_push (they occur at the later positions)
        for o2 in range(N_OPS):
            c = dict(k=k, o1=o1, o2=o2)
            for j in range(k + 1, 6):
                c.update({'o%d' % j: 0, 't%d' % j: 0})
            out.append(dict(name='o%d%d' % (o1, o2), module='harness.c19', fn='prog', consts=c, budget_s=40 if q else 600))
    return out


def bounds(tier):
    return dict(program_length=3 if tier == 'quick' else 5, times='[0,3]', context_nesting=2,
                opcodes=['set time', 'advance 1', 'read on instance 1', 'inspect_value', 'enter time context + set time', 'leave context',
                         '_state_push / _state_pop (alternating)', 'read on instance 2', 'leave context through StopIteration',
                         'read the class, create an instance, read it for the first time', 'push; advance; read; [push; advance; read; pop;] pop (compact, optionally nested)'])
