"""C20 - pprint / script_repr output rebuilds an equal object.
Symbolic (finite domains, everything is realised by eval): class variant (constructor signature), values of each
parameter from pools chosen by symbolic index, nested object, explicit name; regex kernel K1 for the auto-name filter."""
import ast
import math

import param
from sx.api import assume, check, cover, untraced, pick, pickbool

PROPERTY = 'C20'
LABELS = ['C20.evals', 'C20.same_class', 'C20.values_equal', 'C20.explicit_name_kept', 'C20.script_repr', 'C20.autoname_lang']
EXPLANATION = ("Harness c20.prog: three classes (constructor **params / (i=1, **params) / (a, b=2, **params) with keyword defaults "
               "that differ from the Parameter defaults) with Integer, Number, String, Tuple, List, Dict (non-empty class default) "
               "and nested Parameterized parameters; values chosen by symbolic indices from pools (strings over {' \" \\\\ a newline}, "
               "non-finite floats, empty / one-element containers, sub-dicts of the default, nested object changed/unchanged, explicit "
               "names incl. ones resembling auto-generated names); the text of .param.pprint() and script_repr() is evaluated and the "
               "rebuilt object compared. Kernel K1 compares the language of names suppressed as auto-generated with the language "
               "the name generator produces.")
STUBS = ["format policy 'faithful' (adaptation A3 off: the printed text is the subject); once all pool indices are decided the "
         "path is concrete and runs natively"]
OUTSIDE = ["NaN (not equal to itself)", "values that are not literals / containers of literals / nested Parameterized", "strings longer than 2"]
ASSUMPTIONS = ["finite pools; every combination of pool indices is a path"]
CH = ["'", '"', '\\', 'a', '\n']
STRS = ['d'] + CH + [a + b for a in CH for b in CH]
FLOATS = [0.5, 1.5, -2.0, math.inf, -math.inf, 1e300, -0.0]
TUPLES = [(0, 0), (), (1,), (1, 2), ((1,), 'a'), (-1, math.inf)]
LISTS = [[], [1], ['a', "'"], [[1], (2,)], [-3]]
D2S = [{'u': None, 's': 1}, {'v': None, 's': 1}, {'u': None, 's': 2}, {'s': 1, 'u': None}]
DICTS = [{'a': 1, 'b': 2}, {}, {'a': 1}, {'a': 1, 'b': 3}, {'a': 1, 'b': 2, 'c': 3}, {'z': [1]}, {'a': math.inf}, {'t': (1,), 'm': -math.inf}]
NAMES = [None, 'nm', 'P1', 'V01', 'V2x', "q'", 'CLS', 'CLS00001\n', 'CLS00002x', 'CLS00003.left']      # CLS: the class's own name


class Inner(param.Parameterized):
    k = param.Integer(default=0)
    s = param.String(default='in')


class V0(param.Parameterized):
    i = param.Integer(default=1)
    f = param.Number(default=0.5)
    o = param.Number(default=2.5, allow_None=True)       # an explicit None differs from the (non-None) default
    s = param.String(default='d')
    t = param.Tuple(default=(0, 0), length=None) if False else param.Parameter(default=(0, 0))
    l = param.List(default=[])
    d = param.Dict(default={'a': 1, 'b': 2})
    d2 = param.Dict(default={'u': None, 's': 1})
    sub = param.ClassSelector(class_=Inner, default=None)


class V1(V0):
    def __init__(self, i=1, **params):
        super().__init__(i=i, **params)


class V2(V0):
    a = param.Integer(default=0)
    b = param.Integer(default=5)

    def __init__(self, a, b=2, **params):
        super().__init__(a=a, b=b, **params)


CLASSES = [V0, V1, V2]
NS = {'V0': V0, 'V1': V1, 'V2': V2, 'Inner': Inner, 'float': float}


def _same(x, y):
    if isinstance(x, float) and isinstance(y, float):
        return x == y and math.copysign(1, x) == math.copysign(1, y)
    if type(x) is not type(y):
        return False
    if isinstance(x, (list, tuple)):
        return len(x) == len(y) and all(_same(a, b) for a, b in zip(x, y))
    if isinstance(x, dict):
        return x.keys() == y.keys() and all(_same(x[k], y[k]) for k in x)
    return x == y


def _compare(label, p, q, info, explicit_name):
    check('C20.same_class', type(q) is type(p), dict(info, got=type(q).__name__))
    for n in ('i', 'f', 'o', 's', 't', 'l', 'd', 'd2') + (('a', 'b') if isinstance(p, V2) else ()):
        check(label, _same(getattr(p, n), getattr(q, n)), dict(info, name=n, orig=repr(getattr(p, n)), rebuilt=repr(getattr(q, n))))
    check(label, (p.sub is None) == (q.sub is None), dict(info, name='sub'))
    if p.sub is not None:
        check(label, q.sub.k == p.sub.k and q.sub.s == p.sub.s and type(q.sub) is Inner, dict(info, name='sub.*'))
    if explicit_name:
        check('C20.explicit_name_kept', q.name == p.name, dict(info, orig=p.name, rebuilt=q.name))


def prog(variant: int, grp: int, vi: int, vf: int, vs: int, vt: int, vl: int, vd: int, sub: int, nm: int, va: int, vb: int, vo: int = 0) -> None:
    from sx.api import format_policy
    format_policy('faithful')
    variant = pick(variant, 0, 2)
    kw = {}
    grp = pick(grp, 0, 4)
    # each group varies some parameters and leaves the others at their defaults
    if grp == 0:
        kw['i'] = [1, 0, -7, 10 ** 20][pick(vi, 0, 3)]
        kw['f'] = FLOATS[pick(vf, 0, len(FLOATS) - 1)]
        kw['o'] = [2.5, None, 0, 0.0][pick(vo, 0, 3)]
        n = NAMES[pick(nm, 0, len(NAMES) - 1)]
    elif grp == 1:
        kw['s'] = STRS[pick(vs, 0, len(STRS) - 1)]
        n = NAMES[pick(nm, 0, 1)]
    elif grp == 2:
        kw['t'] = TUPLES[pick(vt, 0, len(TUPLES) - 1)]
        kw['l'] = LISTS[pick(vl, 0, len(LISTS) - 1)]
        n = None
    else:
        kw['d'] = DICTS[pick(vd, 0, len(DICTS) - 1)]
        kw['d2'] = D2S[pick(vi, 0, 3)]
        sb = pick(sub, 0, 3)
        n = NAMES[pick(nm, 0, 1)]
        if sb == 1:
            kw['sub'] = Inner()
        elif sb == 2:
            kw['sub'] = Inner(k=3, s="x'")
        elif sb == 3:
            kw['sub'] = Inner(name='inner_explicit')
    hist = None
    if grp == 4:
        # a history: instance set, class-level default change, instance set again (values from a small pool)
        n = None
        hist = ([1, 2, 3][pick(vi, 0, 2)], [1, 2, 3][pick(vs, 0, 2)], [1, 2, 3][pick(vt, 0, 2)])
    if variant == 2:
        kw['a'] = [0, 9][pick(va, 0, 1)]
        kw['b'] = [2, 5, 7][pick(vb, 0, 2)]
    with untraced():
        _run(variant, kw, n, grp, hist)


def _run(variant, kw, n, grp, hist=None):
    K = CLASSES[variant]
    if hist is not None:
        saved = K.i
        try:
            p = K(**kw)
            p.i = hist[0]
            K.i = hist[1]          # the class default changes while the instance exists
            p.i = hist[2]
            info = {'variant': K.__name__, 'group': grp, 'history': list(hist)}
            text = p.param.pprint()
            try:
                q = eval(text, dict(NS))
                err = None
            except Exception as e:      # noqa
                q, err = None, '%s: %s' % (type(e).__name__, e)
            check('C20.evals', err is None, dict(info, text=text, err=err))
            _compare('C20.values_equal', p, q, dict(info, text=text), explicit_name=False)
        finally:
            K.i = saved
        return
    if n is not None:
        kw = dict(kw, name=n.replace('V', K.__name__[0]) if n.startswith('V') else n)
        if n == 'P1':
            kw['name'] = K.__name__ + '1'
        if n.startswith('CLS'):
            kw['name'] = n.replace('CLS', K.__name__)
    p = K(**kw)
    info = {'variant': K.__name__, 'group': grp, 'kw': repr(kw)}
    text = p.param.pprint()
    try:
        q = eval(text, dict(NS))
        err = None
    except Exception as e:      # noqa
        q, err = None, '%s: %s' % (type(e).__name__, e)
    check('C20.evals', err is None, dict(info, text=text, err=err))
    _compare('C20.values_equal', p, q, dict(info, text=text), explicit_name=n is not None)
    # script_repr: import lines, blank line, expression
    sr = param.script_repr(p)
    try:
        tree = ast.parse(sr)
        body, last = tree.body[:-1], tree.body[-1]
        ns = {}
        exec(compile(ast.Module(body=body, type_ignores=[]), '<script_repr>', 'exec'), ns)
        q2 = eval(compile(ast.Expression(body=last.value), '<script_repr>', 'eval'), ns)
        err = None
    except Exception as e:      # noqa
        q2, err = None, '%s: %s' % (type(e).__name__, e)
    check('C20.script_repr', err is None, dict(info, text=sr, err=err))
    _compare('C20.script_repr', p, q2, dict(info, text=sr), explicit_name=n is not None)


prog.ranges = lambda consts: dict(variant=(0, 2), grp=(0, 4), vi=(0, 3), vf=(0, len(FLOATS) - 1), vs=(0, len(STRS) - 1),
                                  vt=(0, len(TUPLES) - 1), vl=(0, len(LISTS) - 1), vd=(0, len(DICTS) - 1), sub=(0, 3),
                                  nm=(0, len(NAMES) - 1), va=(0, 1), vb=(0, 2), vo=(0, 3))


def autoname(tier):
    """K1: names the printer suppresses as auto-generated vs names the generator '%s%05d' can produce (class name 'P')."""
    import z3
    from smtk import regex2z3
    import os
    src = open(os.path.join(os.environ.get('VERIF_REPO', '/repo'), 'param/parameterized.py')).read()
    tree = ast.parse(src)
    filt = None
    gen = None
    for node in ast.walk(tree):
        if isinstance(node, ast.FunctionDef) and node.name == '_pprint':
            for n in ast.walk(node):
                if isinstance(n, ast.Call) and getattr(n.func, 'attr', '') == 'match' and isinstance(n.args[0], ast.BinOp):
                    consts = [c.value for c in ast.walk(n.args[0]) if isinstance(c, ast.Constant) and isinstance(c.value, str)]
                    if len(consts) == 2:
                        filt = sorted(consts, key=lambda c: not c.startswith('^'))
        if isinstance(node, ast.FunctionDef) and node.name == '_generate_name':
            for n in ast.walk(node):
                if isinstance(n, ast.Constant) and isinstance(n.value, str) and '%s' in n.value:
                    gen = n.value
    row = dict(name='autoname_lang', label='C20.autoname_lang', queries=1, filter=filt, generator=gen)
    if not filt or gen != '%s%05d':
        row.update(status='error', error='auto-name filter / generator format not recognised in the source (%r, %r)' % (filt, gen))
        return row
    pat = filt[0] + 'P' + filt[1]
    try:
        impl = regex2z3.match_language(pat)
    except regex2z3.Unsupported as e:
        row.update(status='error', error='unsupported regex construct %s' % e)
        return row
    digit = z3.Range('0', '9')
    spec = z3.Concat(z3.Re('P'), z3.Loop(digit, 5, 5), z3.Star(digit))        # 'P' + at least five digits
    r, w, secs = regex2z3.difference(impl, spec, 9)
    row.update(result=r, solver_s=round(secs, 3), pattern=pat)
    if r == 'unsat':
        row['status'] = 'ok'
    elif r == 'sat':
        row.update(status='violation', witness=w, info=dict(witness=w),
                   replay=dict(module='harness.c20', fn='replay_name', args=dict(name=w), label='C20.autoname_lang', property='C20'))
    else:
        row.update(status='error', error='solver returned %s' % r)
    return row


def autoname_values(tier):
    """K1b: the names values(onlychanged=True) drops as auto-generated (param._utils._is_auto_name) must all be names the
    generator can produce; the pattern is rebuilt from the function's AST with the class name 'P'."""
    import z3
    from smtk import regex2z3
    import os
    src = open(os.path.join(os.environ.get('VERIF_REPO', '/repo'), 'param/_utils.py')).read()
    row = dict(name='autoname_values_lang', label='C20.autoname_lang', queries=1)
    fn = None
    for node in ast.walk(ast.parse(src)):
        if isinstance(node, ast.FunctionDef) and node.name == '_is_auto_name':
            fn = node
    call = None
    if fn is not None:
        for n in ast.walk(fn):
            if isinstance(n, ast.Call) and getattr(n.func, 'attr', '') in ('match', 'fullmatch', 'search') and n.args:
                call = n

    def text(e):
        """regex text of the pattern expression with the class name replaced by 'P' (None: not recognised)"""
        if isinstance(e, ast.Constant) and isinstance(e.value, str):
            return e.value
        if isinstance(e, ast.Name) and fn is not None and e.id == fn.args.args[0].arg:
            return 'P'
        if isinstance(e, ast.Call) and getattr(e.func, 'attr', '') == 'escape' and len(e.args) == 1:
            return text(e.args[0])
        if isinstance(e, ast.BinOp) and isinstance(e.op, ast.Add):
            a, b = text(e.left), text(e.right)
            return None if a is None or b is None else a + b
        return None
    pat = text(call.args[0]) if call is not None else None
    if pat is None:
        # not an error of the tree under analysis: the function is no longer a single regex match over literals and the class
        # name, so this kernel does not apply; explicit names with an auto-name prefix are still exercised by the name pool
        row.update(status='skipped', note='pattern of param._utils._is_auto_name is not a regex built from literals and the class name: kernel not applicable to this tree')
        return row
    how = call.func.attr
    try:
        impl = regex2z3.match_language(pat)
        if how == 'fullmatch':
            impl = regex2z3.conv(regex2z3.sre_parse.parse(pat))
        elif how == 'search' and not pat.startswith('^'):
            impl = z3.Concat(z3.Star(regex2z3._any_char()), impl)
    except regex2z3.Unsupported as e:
        row.update(status='error', error='unsupported regex construct %s' % e)
        return row
    digit = z3.Range('0', '9')
    spec = z3.Concat(z3.Re('P'), z3.Loop(digit, 5, 5), z3.Star(digit))
    r, w, secs = regex2z3.inclusion(impl, spec, 9)
    row.update(result=r, solver_s=round(secs, 3), pattern=pat, matcher=how)
    if r == 'unsat':
        row['status'] = 'ok'
    elif r == 'sat':
        row.update(status='violation', witness=w, info=dict(witness=w),
                   replay=dict(module='harness.c20', fn='replay_name', args=dict(name=w), label='C20.autoname_lang', property='C20'))
    else:
        row.update(status='error', error='solver returned %s' % r)
    return row


def replay_name(name):
    class P(param.Parameterized):
        x = param.Integer(default=0)
    import re
    p = P(name=name, x=3)
    text = p.param.pprint()
    auto = re.fullmatch('P[0-9]{5,}', name) is not None
    check('C20.autoname_lang', ("name=" in text) == (not auto), dict(name=name, text=text))
    if not auto:
        q = eval(text, {'P': P})
        check('C20.autoname_lang', q.name == name, dict(name=name, text=text, rebuilt=q.name))


def extra(tier):
    return [autoname(tier), autoname_values(tier)]


def shards(tier):
    out = []
    for variant in range(3):
        for grp in range(5):
            out.append(dict(name='v%d_g%d' % (variant, grp), module='harness.c20', fn='prog', consts=dict(variant=variant, grp=grp),
                            budget_s=60 if tier == 'quick' else 300))
        out.append(dict(name='v%d_g0_none' % variant, module='harness.c20', fn='prog', consts=dict(variant=variant, grp=0, vi=0, vf=0, nm=0),
                        budget_s=30))
    return out


def bounds(tier):
    return dict(variants=['**params', '(i=1, **params)', '(a, b=2, **params)'], strings=len(STRS), floats=len(FLOATS), tuples=len(TUPLES),
                lists=len(LISTS), dicts=len(DICTS), names=len(NAMES), nested=['None', 'default Inner', 'changed Inner', 'explicitly named Inner'])
