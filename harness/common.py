"""Shared helpers for harnesses: JSON text stub, assignment routes."""
import contextlib

import param
import param.serializer
from sx.api import untraced, check, assume


class NoText(param.serializer.JSONSerialization):
    """Stub: the JSON *text* is abstract.  dumps/loads are the identity, so the real serializer loop,
    serialize_value/deserialize_value and every per-type hook still run on (symbolic) Python values."""

    @classmethod
    def dumps(cls, obj):
        return obj

    @classmethod
    def loads(cls, s):
        return s


@contextlib.contextmanager
def notext():
    with untraced():
        saved = param.Parameter._serializers['json']
        param.Parameter._serializers['json'] = NoText
    try:
        yield
    finally:
        with untraced():
            param.Parameter._serializers['json'] = saved


ROUTES = ['instance attribute', 'param.update', 'class attribute', 'constructor kwarg', 'deserialize -> constructor',
          'declaration default']


def assign(P, route, v, name='x'):
    """Assign v to parameter `name` through one of routes 0-4 on a class P whose declaration is valid.
    Returns (accepted, exception name or None, object to read back from, previous value)."""
    p = P()
    before = getattr(p, name)
    target = p
    try:
        if route == 0:
            setattr(p, name, v)
        elif route == 1:
            p.param.update(**{name: v})
        elif route == 2:
            setattr(P, name, v)
            target = P
        elif route == 3:
            target = P(**{name: v})
        elif route == 4:
            with notext():
                kw = P.param.deserialize_parameters({name: v})
            target = P(**kw)
        else:
            raise AssertionError(route)
        return True, None, target, before, p
    except Exception as e:      # the caller checks that only ValueError/TypeError are raised (C01.exc)
        return False, type(e).__name__, p, before, p
