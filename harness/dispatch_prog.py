"""Shared symbolic-program runner for the dispatch properties (C03, C04): real param object vs models.dispatch."""
import datetime as dt

import param
from param.parameterized import batch_call_watchers, discard_events
from sx.api import assume, check, cover, untraced, pick, pickbool
from models.dispatch import Model, W, Unspecified, traces_match, multiset_match, entries_match, ANY, _veq


class P(param.Parameterized):
    a = param.Integer(default=0)
    b = param.Integer(default=0)
    u = param.Parameter(default=None)
    e = param.Event()


NAN = float('nan')
OBJ = object()
UPOOL = [None, 1, [1], [1]]            # small pool for the dispatch programs; the full equality pool is EQPOOL
EQPOOL = [None, 1, True, 1.0, NAN, 'a', 'a'[:], [1], [1], [1.0], (1,), {'k': 1}, {'k': 1}, {'k': 2}, dt.date(2020, 1, 1),
          dt.datetime(2020, 1, 1), dt.date(2020, 1, 1), OBJ, {0, 8}, {8, 0}, [[1], {'k': (1, 2)}], [[1], {'k': (1, 2)}],
          [[1], {'k': (1, 3)}], b'a', 0, 0.0, False, '', [], (), {}, {'a': None}, {'b': None}, [None], [0],
          {'a': 1, 'b': 2}, {'b': 1, 'a': 2}, {'b': 2, 'a': 1}, [{'a': 1, 'b': 2}], [{'b': 2, 'a': 1}]]
NAMES = [('a',), ('b',), ('a', 'b'), ('u',), ('a', 'u'), ('e', 'a')]
(SET_A, SET_B, SET_U, UNWATCH, TRIGGER_A, SET_SLOT, UPDATE, BATCH_ENTER, DISCARD_ENTER, UPDCTX_ENTER, EXIT, SET_E,
 TRIGGER_E, TRIGGER_AB, UPDATE_AE) = range(15)
OPNAMES = ['set a', 'set b', 'set u', 'unwatch', 'trigger a', 'set a.softbounds', 'update(a,b)', 'batch enter',
           'discard enter', 'update-context enter', 'exit innermost context', 'set e', 'trigger e', 'trigger a,b', 'update(a,e)']


def uidx(v):
    for i, o in enumerate(UPOOL):
        if o is v:
            return i
    return -1


def _norm(v):
    return v          # values are compared by identity first, then by type and equality (models.dispatch._veq)


def run(prefix, ops, wcfgs, allowed_ops, act, slot_w=False, dev_check=True, level=0, selfun=False, copied=0):
    """ops: list of (opcode, x) symbolic; wcfgs: list of (nidx, onlychanged, queued, precedence, kwmode) symbolic;
    act: bool, watcher 1 assigns b := a + 1 when it is told about a."""
    with untraced():
        if level == 1:
            # class-level watchers and assignments: a fresh class per path (class-level state is global)
            class PL(param.Parameterized):
                a = param.Integer(default=0)
                b = param.Integer(default=0)
                u = param.Parameter(default=None)
                e = param.Event()
            p = PL
        else:
            p = P()
    snapf = lambda m: (m.values['a'], m.values['b'], _norm(m.values['u']))
    init = {'a': 0, 'b': 0, 'u': None, 'e': False}
    models = {'stmt': Model(init, {('a', 'softbounds'): None}, snap=snapf, events=('e',))}
    oplog = []          # model-side operations, replayed into a deviating model only when the statement model disagrees

    def deviating(dev):
        m2 = Model(init, {('a', 'softbounds'): None}, dev=dev, snap=snapf, events=('e',))
        try:
            for f in oplog:
                f(m2)
        except Unspecified:
            return None
        return m2
    real = []
    state = {'queued_running': 0}
    watchers = {}
    qact = []           # queued flags of watchers with an assigning callback (consulted lazily)

    def mk(wid, kw, has_action, queued):
        def cb(*events, **kwargs):
            if kw:
                rec = tuple(sorted((k, _norm(v)) for k, v in kwargs.items()))
                names = list(kwargs)
            else:
                rec = tuple((e.name, e.what, _norm(e.old), _norm(e.new), e.type) for e in events)
                names = [e.name for e in events]
            real.append((wid, rec, (p.a, p.b, _norm(p.u)), state['queued_running'] > 0))
            if selfun and wid == 1 and wid in watchers:
                p.param.unwatch(watchers.pop(wid))
            if has_action and 'a' in names:
                if queued:
                    state['queued_running'] += 1
                try:
                    p.b = p.a + 1
                finally:
                    if queued:
                        state['queued_running'] -= 1
        return cb

    def maction(m):
        m.set('b', m.values['a'] + 1)

    def munwatch(m):
        m.unwatch(1)

    for wi, (nidx, oc, qd, pr, kw) in enumerate(wcfgs):
        wid = wi + 1
        names = NAMES[pick(nidx, 0, len(NAMES) - 1)]
        kw = pickbool(kw)
        # onlychanged / queued / precedence stay symbolic: they fork only where the dispatch code consults them
        has_action = wid == 1 and 'a' in names and 'b' not in names and pickbool(act)
        what = 'value'
        if slot_w and wid == len(wcfgs) and names == ('a',) and not kw:
            what = 'softbounds'          # the last watcher doubles as a slot watcher when it watches only a (args mode)
            has_action = False
        if has_action:
            qact.append(qd)
        fn = mk(wid, kw, has_action, qd)
        if kw:
            watchers[wid] = p.param.watch_values(fn, list(names), what=what, onlychanged=oc, queued=qd, precedence=pr)
        else:
            watchers[wid] = p.param.watch(fn, list(names), what=what, onlychanged=oc, queued=qd, precedence=pr)
        wreg = (lambda wid=wid, names=names, oc=oc, qd=qd, pr=pr, kw=kw, what=what, has_action=has_action:
                (lambda m: m.watch(W(wid, names, oc, qd, pr, 'kwargs' if kw else 'args', what, maction if has_action else None,
                                     pre=munwatch if (selfun and wid == 1) else None))))()
        oplog.append(wreg)
        for m in models.values():
            wreg(m)
    if copied:
        # the program runs on a copy (deepcopy / pickle round trip is not possible with local callbacks) of the object the
        # watchers were registered on: the copy must dispatch exactly like the original (callbacks are plain functions and
        # are shared; they read the object through the variable p, which now names the copy)
        assume(level == 0 and not selfun)
        import copy as _copy
        with untraced():
            p = _copy.deepcopy(p) if copied == 1 else _copy.copy(p)
    stack = []          # (kind, real context manager, {model name: saved})
    alive = dict(models)
    trig_in_batch = False
    def do_step(step, o, x):
        nonlocal trig_in_batch
        o = pick(o, min(allowed_ops), max(allowed_ops))
        assume(o in allowed_ops or o == EXIT)
        cover('%s.op.%s' % (prefix, OPNAMES[o]))
        n0 = len(real)
        depth = len(stack)
        in_discard = any(k == 'discard' for k, _, _ in stack)

        def both(f_real, f_model):
            f_real()
            oplog.append(f_model)
            for k in list(alive):
                try:
                    f_model(alive[k])
                except Unspecified:
                    del alive[k]
        if o == SET_A:
            both(lambda: setattr(p, 'a', x), lambda m: m.set('a', x))
        elif o == SET_B:
            both(lambda: setattr(p, 'b', x), lambda m: m.set('b', x))
        elif o == SET_U:
            ui = pick(x, 0, len(UPOOL) - 1)
            both(lambda: setattr(p, 'u', UPOOL[ui]), lambda m: m.set('u', UPOOL[ui]))
        elif o == UNWATCH:
            wid = pick(x, 1, len(wcfgs))
            assume(wid in watchers)
            w = watchers.pop(wid)
            both(lambda: p.param.unwatch(w), lambda m: m.unwatch(wid))
        elif o in (TRIGGER_A, TRIGGER_E, TRIGGER_AB):
            names = {TRIGGER_A: ['a'], TRIGGER_E: ['e'], TRIGGER_AB: ['a', 'b']}[o]
            if depth > 0:
                trig_in_batch = True
            both(lambda: p.param.trigger(*names), lambda m: m.trigger(names))
        elif o == SET_SLOT:
            sb = (x, x)
            both(lambda: setattr(p.param.a, 'softbounds', sb), lambda m: m.set_slot('a', 'softbounds', sb))
        elif o == UPDATE:
            both(lambda: p.param.update(a=x, b=x + 1), lambda m: m.update({'a': x, 'b': x + 1}))
        elif o == UPDATE_AE:      # an Event parameter among the keys of an update
            both(lambda: p.param.update(a=x, e=True), lambda m: m.update({'a': x, 'e': True}))
        elif o == SET_E:
            both(lambda: setattr(p, 'e', True), lambda m: m.set('e', True))
        elif o == BATCH_ENTER:
            assume(depth < 2)
            cm = batch_call_watchers(p)
            cm.__enter__()
            oplog.append(lambda m: m.batch_enter())
            for m in alive.values():
                m.batch_enter()
            stack.append(('batch', cm, None))
        elif o == DISCARD_ENTER:
            assume(depth < 2)
            cm = discard_events(p)
            cm.__enter__()
            oplog.append(lambda m: m._dstack.append(m.discard_enter()))
            for m in alive.values():
                m._dstack.append(m.discard_enter())
            stack.append(('discard', cm, None))
        elif o == UPDCTX_ENTER:
            assume(depth < 2)
            cm = p.param.update(a=x)

            def uenter(m):
                m._ustack.append(m.values['a'])
                m.update({'a': x})
            oplog.append(uenter)
            for k in list(alive):
                try:
                    uenter(alive[k])
                except Unspecified:
                    del alive[k]
            cm.__enter__()
            stack.append(('updctx', cm, None))
        elif o == EXIT:
            assume(depth > 0)
            kind, cm, saved = stack.pop()
            cm.__exit__(None, None, None)

            def mexit(m, kind=kind):
                if kind == 'batch':
                    m.batch_exit()
                elif kind == 'discard':
                    m.discard_exit(m._dstack.pop())
                    if m.batch == 0:
                        m.flush()
                else:
                    m.update({'a': m._ustack.pop()})
            oplog.append(mexit)
            for k in list(alive):
                try:
                    mexit(alive[k])
                except Unspecified:
                    del alive[k]
        any_queued_action = False
        for qf in qact:
            if qf:
                any_queued_action = True
        info = {'op': OPNAMES[o], 'step': step, 'depth': depth, 'trigger_in_batch': trig_in_batch,
                'queued_action': any_queued_action, 'in_discard': in_discard}
        if 'stmt' not in alive:
            return False          # the statement leaves this program open from here on
        m = alive['stmt']
        # --- values
        check(prefix + '.values', _veq((p.a, p.b, _norm(p.u), p.e), (m.values['a'], m.values['b'], _norm(m.values['u']), m.values['e'])), info)
        rt = [r[:3] for r in real]
        mt = [t[:3] for t in m.trace]
        bdepth = sum(1 for kk, _, _ in stack if kk in ('batch', 'discard'))
        if bdepth > 0 and o not in (EXIT, BATCH_ENTER, DISCARD_ENTER):
            check(prefix + '.deferred', len(real) == n0, info)          # no watcher runs while a batching context is open
        # --- a queued callback's own assignments are never dispatched while it is running
        check(prefix + '.queued_deferred', not any(r[3] for r in real[n0:]), info)
        if any_queued_action:
            ok = multiset_match(rt, mt)
            lab = '.once'
        else:
            ok = traces_match(rt, mt)
            lab = None
        if not ok:
            explained = None
            if dev_check:
                # with an assigning queued callback the statement fixes the calls as a multiset only; the same holds for
                # the model variants that encode a known deviation
                same = multiset_match if any_queued_action else traces_match
                m2 = deviating(('coalesce',))
                if m2 is not None and same(rt, [t[:3] for t in m2.trace]):
                    explained = 'per_param_coalescing'
                elif trig_in_batch:
                    m3 = deviating(('coalesce', 'trigger_batch'))
                    if m3 is not None and same(rt, [t[:3] for t in m3.trace]):
                        explained = 'trigger_inside_batch'
            info = dict(info, explained_by=explained)
            _diagnose(prefix, rt, mt, info)
            check(prefix + (lab or '.order'), False, info)
        for l in ('.once', '.order', '.oldnew', '.type', '.visible'):
            check(prefix + l, True)
        if not ok:
            return False
        return True
    for step, (o, x) in enumerate(ops):
        if not do_step(step, o, x):
            return
    step = len(ops)
    while stack:        # close what is still open (innermost first) and compare again
        if not do_step(step, EXIT, 0):
            return
        step += 1
    if level == 0:
        # nothing done to this object may affect other objects of the class: a fresh instance pulses its Event twice
        f = P()
        got = []
        f.param.watch(lambda e: got.append((e.old, e.new)), 'e')
        f.e = True
        f.e = True
        check(prefix + '.values', got == [(False, True), (False, True)] and f.e is False and p.e is False,
              {'fresh_instance_event': True, 'got': repr(got)})


def _diagnose(prefix, rt, mt, info):
    """raise the most specific label for a trace mismatch"""
    wr, wm = [r[0] for r in rt], [t[0] for t in mt]
    check(prefix + '.once', sorted(wr) == sorted(wm), dict(info, real_calls=wr, model_calls=wm))
    check(prefix + '.order', wr == wm, dict(info, real_calls=wr, model_calls=wm))
    for r, t in zip(rt, mt):
        if entries_match(r, t):
            continue
        check(prefix + '.visible', not (_events_eq(r[1], t[1]) and not _veq(r[2], t[2])), dict(info, real=repr(r), model=repr(t)))
        check(prefix + '.type', _events_eq(_strip_type(r[1]), _strip_type(t[1])) is False or _events_eq(r[1], t[1]),
              dict(info, real=repr(r), model=repr(t)))
        check(prefix + '.oldnew', False, dict(info, real=repr(r), model=repr(t)))


def _strip_type(evs):
    return tuple(e[:4] if len(e) == 5 else e for e in evs)


def _events_eq(a, b):
    if len(a) != len(b):
        return False
    for x, y in zip(a, b):
        if len(x) != len(y):
            return False
        for i, j in zip(x, y):
            if j is ANY:
                continue
            if not _veq(i, j):
                return False
    return True


def eq_run(prefix, i, j, oc, what_first):
    """Change detection on an untyped parameter: u := EQPOOL[i]; then u := EQPOOL[j] with one watcher."""
    from models.dispatch import same3
    with untraced():
        p = P()
    i = pick(i, 0, len(EQPOOL) - 1)
    j = pick(j, 0, len(EQPOOL) - 1)
    oc = pickbool(oc)
    calls = []
    p.u = EQPOOL[i]
    p.param.watch(lambda e: calls.append(e), 'u', onlychanged=oc)
    p.u = EQPOOL[j]
    s = same3(EQPOOL[i], EQPOOL[j])
    info = {'i': i, 'j': j, 'onlychanged': oc, 'old': repr(EQPOOL[i]), 'new': repr(EQPOOL[j]), 'same3': s}
    if not oc:
        check(prefix + '.once', len(calls) == 1, info)
    elif s is False:
        check(prefix + '.skip_only_equal', len(calls) == 1, info)          # a genuine change is never suppressed
    elif s is True:
        check(prefix + '.skip_equal_families', len(calls) == 0, info)      # equal numbers/strings/None/dates/containers
    if calls:
        e = calls[0]
        check(prefix + '.oldnew', e.old is EQPOOL[i] and e.new is EQPOOL[j] and p.u is EQPOOL[j], info)
        check(prefix + '.type', e.type == ('changed' if oc else 'set'), info)
