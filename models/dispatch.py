"""Reference dispatcher written from the C03/C04 statements (no import of param).

Model(dev=...) : dev is a set of *known deviations* of the implementation from the statement; with dev=()
the model is the statement.  The harness compares the real trace with Model() and, on a mismatch, with the
deviating models to decide whether the mismatch is exactly a listed known finding.

Trace entry: (wid, events, snapshot)
  events  : args mode   -> tuple of (name, what, old, new, type)
            kwargs mode -> tuple of sorted (name, new)
  snapshot: tuple of parameter values visible at callback entry
ANY is a wildcard used where the statement leaves a field open (the `old` of a coalesced event)."""
import datetime as dt
import numbers


class Unspecified(Exception):
    """The statement does not fix the behaviour of this program: the harness asserts nothing."""


class _Any:
    def __repr__(self):
        return 'ANY'


ANY = _Any()


def same3(old, new):
    """three-valued: True = must be treated as unchanged, False = must be treated as changed, None = unspecified"""
    try:
        eq = (old == new)
        eqb = True if eq else False
    except Exception:
        return None
    if not eqb:
        return False            # a genuine change is never suppressed
    return True if _fam_same(old, new) else None


def _fam_same(a, b):
    """equal values of the families the statement lists (numbers, strings, None, dates, containers of these)"""
    if isinstance(a, bool) or isinstance(b, bool) or isinstance(a, numbers.Number) or isinstance(b, numbers.Number):
        return isinstance(a, numbers.Number) and isinstance(b, numbers.Number)
    if a is None or b is None:
        return a is None and b is None
    if isinstance(a, (str, bytes)):
        return type(a) is type(b)
    if isinstance(a, dt.date):
        return isinstance(b, dt.date) and isinstance(a, dt.datetime) == isinstance(b, dt.datetime)
    if isinstance(a, (list, tuple)):
        return type(a) is type(b) and len(a) == len(b) and all(_fam_same(x, y) for x, y in zip(a, b))
    if isinstance(a, set):
        return type(a) is type(b) and all(_atom(x) for x in a) and all(_atom(x) for x in b)
    if isinstance(a, dict):
        return type(a) is type(b) and a.keys() == b.keys() and all(_fam_same(a[k], b[k]) for k in a)
    return False


def _atom(x):
    return x is None or isinstance(x, (numbers.Number, str, bytes, dt.date))


class W:
    def __init__(self, wid, names, onlychanged=True, queued=False, precedence=0, mode='args', what='value', action=None, pre=None):
        self.wid, self.names, self.onlychanged, self.queued = wid, tuple(names), onlychanged, queued
        self.precedence, self.mode, self.what, self.action = precedence, mode, what, action
        self.action_on = 'a'          # the callback assigns only when it is told about this parameter
        self.pre = pre                # runs first in every call (e.g. the callback removes its own watcher)


class Model:
    def __init__(self, values, slots=None, dev=(), snap=None, events=()):
        self.values = dict(values)
        self.slots = dict(slots or {})       # (name, what) -> value
        self.dev = frozenset(dev)
        self.snap = snap or (lambda m: tuple(sorted(m.values.items())))
        self.event_params = set(events)      # self-resetting Event parameters
        self.watchers = []                   # registration order
        self.batch = 0                       # open batching contexts (incl. running queued callbacks)
        self.triggering = False
        self.q = []                          # queued (watcher-or-None, name, what, old, new, triggered)
        self.q_watchers = []
        self.trace = []
        self.running_queued = 0
        self._dstack, self._ustack = [], []      # harness-side context stacks

    def watch(self, w):
        self.watchers.append(w)

    def unwatch(self, wid):
        self.watchers = [w for w in self.watchers if w.wid != wid]

    # ------------------------------------------------------------------ operations
    def set(self, name, val):
        old = self.values[name]
        self.values[name] = val
        self._announce(name, 'value', old, val)
        if self.batch == 0:
            self.flush()
        if name in self.event_params and not self._in_update:
            self.values[name] = False

    _in_update = False

    def set_slot(self, name, what, val):
        old = self.slots[(name, what)]
        self.slots[(name, what)] = val
        self._announce(name, what, old, val)
        if self.batch == 0:
            self.flush()

    def _announce(self, name, what, old, val):
        ws = sorted([w for w in self.watchers if w.what == what and name in w.names], key=lambda w: w.precedence)
        for w in ws:
            if w not in self.watchers:
                continue              # removed by an earlier callback of this event: the statement is silent -> impl-like
            if not self.triggering and w.onlychanged:
                s = same3(old, val)
                if s is None:
                    raise Unspecified('equality of %r and %r' % (type(old), type(val)))
                if s:
                    continue
            if self.batch > 0:
                self.q.append((w, name, what, old, val, self.triggering))
                if not any(x is w for x in self.q_watchers):
                    self.q_watchers.append(w)
            else:
                self._call(w, [(name, what, old, val, self.triggering)])

    def _call(self, w, events):
        evs = []
        for name, what, old, new, trig in events:
            typ = 'triggered' if trig else ('changed' if w.onlychanged else 'set')
            evs.append((name, what, old, new, typ))
        if w.mode == 'args':
            rec = tuple(evs)
        else:
            rec = tuple(sorted((e[0], e[3]) for e in evs))
        self.trace.append((w.wid, rec, self.snap(self), self.running_queued > 0))
        if w.pre:
            w.pre(self)
        if w.action and w.action_on in [e[0] for e in events]:
            if self.triggering:
                raise Unspecified('assigning callback while triggering')
            if w.queued:
                self.batch += 1
                self.running_queued += 1
            try:
                w.action(self)
            finally:
                if w.queued:
                    self.batch -= 1
                    self.running_queued -= 1

    def flush(self):
        while self.q:
            q, ws = self.q, self.q_watchers
            self.q, self.q_watchers = [], []
            count = {}
            for _, n, wh, o, v, t in q:
                count[(n, wh)] = count.get((n, wh), 0) + 1
            for w in sorted(ws, key=lambda w: w.precedence):
                evs = []
                for n in w.names:
                    if 'coalesce' in self.dev:
                        cands = [e for e in q if e[1] == n and e[2] == w.what]          # any watcher's event
                    else:
                        cands = [e for e in q if e[0] is w and e[1] == n and e[2] == w.what]   # this watcher's qualifying events
                    if not cands:
                        continue
                    _, n_, wh_, o_, v_, t_ = cands[-1]
                    if count[(n, w.what)] > 1:
                        o_ = ANY                      # 'carrying the final value': old of a coalesced event is open
                    if 'coalesce' in self.dev:
                        t_ = self.triggering
                    evs.append((n_, wh_, o_, v_, t_))
                self._call(w, evs)

    def batch_enter(self):
        self.batch += 1

    def batch_exit(self):
        self.batch -= 1
        if self.batch == 0:
            self.flush()

    def update(self, kv):
        self.batch += 1
        self._in_update = True
        try:
            for k, v in kv.items():
                self.set(k, v)
        finally:
            self._in_update = False
            self.batch -= 1
        if self.batch == 0:
            self.flush()
        for k in kv:
            if k in self.event_params:
                self.values[k] = False

    def trigger(self, names):
        saved_q, saved_w = self.q, self.q_watchers
        self.q, self.q_watchers = [], []
        self.triggering = True
        self.batch += 1
        for n in names:
            if n in self.event_params:
                self.values[n] = True
            self._announce(n, 'value', self.values[n] if n not in self.event_params else False, self.values[n])
        self.batch -= 1
        if self.batch == 0:
            self.flush()
        self.triggering = False
        for n in names:
            if n in self.event_params:
                self.values[n] = False
        if 'trigger_batch' in self.dev:
            # implementation: the parked entries are re-appended *behind* the triggered ones, watchers not de-duplicated
            self.q = self.q + saved_q
            self.q_watchers = self.q_watchers + saved_w
        else:
            # statement: triggered events raised inside an open batch are delivered at the flush, once per watcher
            self.q = saved_q + self.q
            self.q_watchers = saved_w + [w for w in self.q_watchers if not any(w is x for x in saved_w)]

    def discard_enter(self):
        self.batch += 1
        return (list(self.q), list(self.q_watchers))

    def discard_exit(self, saved):
        self.batch -= 1
        self.q, self.q_watchers = saved


def entries_match(real, model):
    """real/model: trace entries without the queued marker; ANY in the model matches anything."""
    if real[0] != model[0] or len(real[1]) != len(model[1]):
        return False
    for r, m in zip(real[1], model[1]):
        if len(r) != len(m):
            return False
        for x, y in zip(r, m):
            if y is ANY:
                continue
            if not _veq(x, y):
                return False
    return _veq(real[2], model[2])


def _veq(x, y):
    if isinstance(x, tuple) and isinstance(y, tuple):
        return len(x) == len(y) and all(_veq(a, b) for a, b in zip(x, y))
    if x is y:
        return True
    if type(x) is not type(y):
        return False
    try:
        return True if x == y else False
    except Exception:
        return False


def traces_match(real, model):
    return len(real) == len(model) and all(entries_match(r, m) for r, m in zip(real, model))


def multiset_match(real, model):
    """same calls in any order"""
    if len(real) != len(model):
        return False
    left = list(model)
    for r in real:
        for i, m in enumerate(left):
            if entries_match(r, m):
                del left[i]
                break
        else:
            return False
    return True
