"""C01.color_lang: the hex pattern used by param.Color (read from /repo's current source) accepts exactly
'optional # then 3 or 6 hex digits' (strings up to max_len, ASCII)."""
import ast
import z3
from smtk import regex2z3


def extract_pattern(path=None):
    import os
    path = path or os.path.join(os.environ.get('VERIF_REPO', '/repo'), 'param/parameters.py')
    tree = ast.parse(open(path).read())
    for node in ast.walk(tree):
        if isinstance(node, ast.ClassDef) and node.name == 'Color':
            for n in ast.walk(node):
                if (isinstance(n, ast.Call) and getattr(n.func, 'attr', '') in ('match', 'fullmatch')
                        and n.args and isinstance(n.args[0], ast.Constant)):
                    return n.args[0].value, n.func.attr
    raise RuntimeError('Color pattern not found')


def run(max_len=8):
    pat, how = extract_pattern()
    row = dict(name='color_lang', label='C01.color_lang', pattern=pat, call=how, max_len=max_len, queries=1)
    try:
        impl = regex2z3.match_language(pat) if how == 'match' else regex2z3.conv(regex2z3.sre_parse.parse(pat))
    except regex2z3.Unsupported as e:
        row.update(status='error', error='unsupported regex construct %s' % e)
        return row
    hexd = z3.Union(z3.Range('0', '9'), z3.Range('a', 'f'), z3.Range('A', 'F'))
    spec = z3.Concat(z3.Option(z3.Re('#')), z3.Union(z3.Loop(hexd, 3, 3), z3.Loop(hexd, 6, 6)))
    r, w, secs = regex2z3.difference(impl, spec, max_len)
    row.update(solver_s=round(secs, 3), result=r)
    if r == 'unsat':
        row['status'] = 'ok'
        # validate the encoding on concrete strings through the real re module (translator self-test)
        import re
        samples = ['', '#', 'abc', '#abc', 'abcdef', '#ABCDEF', 'abcd', '#12345', 'ggg', 'abc\n', '#abcdef\n', 'abcdefa', ' abc']
        s = z3.String('s')
        for t in samples:
            sol = z3.Solver()
            sol.add(s == z3.StringVal(t), z3.InRe(s, impl))
            enc = str(sol.check()) == 'sat'
            real = (re.match(pat, t) if how == 'match' else re.fullmatch(pat, t)) is not None
            if enc != real:
                row.update(status='error', error='regex encoding disagrees with re on %r' % t)
                return row
        row['encoding_validated_on'] = len(samples)
    elif r == 'sat':
        row.update(witness=w)
        # replay on the real API
        row['replay'] = dict(module='smtk.color', fn='replay', args=dict(s=w), label='C01.color_lang', property='C01')
        row['status'] = 'violation'
        row['info'] = dict(witness=w)
    else:
        row.update(status='error', error='solver returned %s' % r)
    return row


def replay(s):
    """Plain-interpreter replay: does param.Color accept s although it is not '#?' + 3|6 hex digits (or vice versa)?"""
    import param
    from sx.api import check
    HEX = "0123456789abcdefABCDEF"
    body = s[1:] if s[:1] == '#' else s
    spec = len(body) in (3, 6) and all(ch in HEX for ch in body)

    class P(param.Parameterized):
        c = param.Color(default='#000000', allow_named=False)
    try:
        P().c = s
        acc = True
    except ValueError:
        acc = False
    check('C01.color_lang', acc == spec, dict(s=s, accepted=acc, spec=spec))
