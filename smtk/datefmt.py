"""K2: date format round trip (DESIGN.md section 3).  The format strings used by Date / CalendarDate / DateRange /
CalendarDateRange serialize/deserialize, the rendering helper and the len()==10 discriminator are read from /repo's
current source with ast; strftime is modelled per directive as a rendered integer (string constrained by a regex plus a
length/value link), strptime by CPython's own _strptime.TimeRE regex translated with K1."""
import ast
import datetime as dt
import time
import _strptime

import z3
from smtk import regex2z3

import os
SRC = os.path.join(os.environ.get('VERIF_REPO', '/repo'), 'param/parameters.py')
DIRS = {'Y': ('y', 1, 9999, 4), 'm': ('m', 1, 12, 2), 'd': ('d', 1, 31, 2), 'H': ('H', 0, 23, 2), 'M': ('M', 0, 59, 2),
        'S': ('S', 0, 59, 2), 'f': ('f', 0, 999999, 6)}


def extract():
    tree = ast.parse(open(SRC).read())
    out = {}
    helper_pads_year = None
    for node in ast.walk(tree):
        if isinstance(node, ast.FunctionDef) and node.name == '_strftime':
            src = ast.unparse(node)
            helper_pads_year = "'%04d' % value.year" in src and "replace('%Y'" in src
        if isinstance(node, ast.ClassDef) and node.name in ('Date', 'CalendarDate', 'DateRange', 'CalendarDateRange'):
            for fn in node.body:
                if isinstance(fn, ast.FunctionDef) and fn.name in ('serialize', 'deserialize'):
                    calls = []
                    disc = None
                    for n in ast.walk(fn):
                        if isinstance(n, ast.Call):
                            name = getattr(n.func, 'attr', None) or getattr(n.func, 'id', None)
                            if name in ('strftime', '_strftime', 'strptime') and n.args and isinstance(n.args[-1], ast.Constant):
                                calls.append((name, n.args[-1].value))
                        if isinstance(n, ast.Compare) and isinstance(n.left, ast.Call) and getattr(n.left.func, 'id', '') == 'len' \
                                and isinstance(n.comparators[0], ast.Constant):
                            disc = n.comparators[0].value
                    out[(node.name, fn.name)] = dict(calls=calls, disc=disc)
    return out, helper_pads_year


def rendered(sol, name, lo, hi, width, pad):
    """fresh Int v in [lo,hi] and String s = its decimal rendering (zero padded to width if pad, else minimal digits)"""
    v = z3.Int(name)
    s = z3.String('s_' + name)
    sol.add(v >= lo, v <= hi, z3.InRe(s, z3.Plus(z3.Range('0', '9'))), z3.StrToInt(s) == v)
    if pad:
        sol.add(z3.Length(s) == width)
    else:
        cases = []
        for nd in range(1, width + 1):
            cases.append(z3.And(v >= (10 ** (nd - 1) if nd > 1 else 0), v < 10 ** nd, z3.Length(s) == nd))
        sol.add(z3.Or(*cases))
    return v, s


def render_text(sol, kind, fmt, pads_year, tag=''):
    pieces = []
    i = 0
    vals = {}
    while i < len(fmt):
        ch = fmt[i]
        if ch == '%':
            d = fmt[i + 1]
            nm, lo, hi, w = DIRS[d]
            pad = True
            if d == 'Y':
                pad = (kind == '_strftime' and pads_year)      # glibc renders %Y unpadded
            v, s = rendered(sol, nm + tag, lo, hi, w, pad)
            vals[nm] = v
            pieces.append(s)
            i += 2
        else:
            pieces.append(z3.StringVal(ch))
            i += 1
    return z3.Concat(*pieces), vals


def concrete_render(kind, fmt, pads_year, fields):
    out = ''
    i = 0
    while i < len(fmt):
        if fmt[i] == '%':
            d = fmt[i + 1]
            nm, lo, hi, w = DIRS[d]
            v = fields[nm]
            if d == 'Y' and not (kind == '_strftime' and pads_year):
                out += str(v)
            else:
                out += str(v).zfill(w)
            i += 2
        else:
            out += fmt[i]
            i += 1
    return out


def parse_language(fmt):
    pat = _strptime.TimeRE().pattern(fmt)
    return regex2z3.conv(regex2z3.sre_parse.parse(pat)), pat      # strptime requires a full match


def validate_model(kind, fmt_out, fmt_in, pads_year, n=200):
    """differential self-test of the strftime/strptime model against the real functions"""
    import random
    import re
    rnd = random.Random(0)
    samples = [dict(y=1, m=1, d=1, H=0, M=0, S=0, f=0), dict(y=9999, m=12, d=28, H=23, M=59, S=59, f=999999),
               dict(y=999, m=1, d=2, H=3, M=4, S=5, f=6), dict(y=1000, m=10, d=10, H=10, M=10, S=10, f=100000)]
    while len(samples) < n:
        samples.append(dict(y=rnd.choice([rnd.randint(1, 9999), rnd.randint(1, 1100)]), m=rnd.randint(1, 12), d=rnd.randint(1, 28),
                            H=rnd.randint(0, 23), M=rnd.randint(0, 59), S=rnd.randint(0, 59), f=rnd.choice([0, rnd.randint(0, 999999)])))
    pat = _strptime.TimeRE().pattern(fmt_in)
    for f in samples:
        val = dt.datetime(f['y'], f['m'], f['d'], f['H'], f['M'], f['S'], f['f'])
        if kind == '_strftime':
            import param.parameters as pp
            real = pp._strftime(val, fmt_out)
        else:
            real = val.strftime(fmt_out)
        mine = concrete_render(kind, fmt_out, pads_year, f)
        if real != mine:
            return 'strftime model differs from the real function on %r: %r vs %r' % (f, mine, real)
        m = re.fullmatch(pat, real)
        try:
            dt.datetime.strptime(real, fmt_in)
            ok = True
        except ValueError:
            ok = False
        if ok != (m is not None):
            return 'strptime regex model differs from the real function on %r' % real
    return None


def run(tier):
    rows = []
    info, pads_year = extract()
    pairs = [('Date', 0), ('CalendarDate', 0), ('DateRange', 0), ('DateRange', 1), ('CalendarDateRange', 0)]
    for cls, idx in pairs:
        ser = info.get((cls, 'serialize'))
        de = info.get((cls, 'deserialize'))
        name = 'datefmt_%s_%d' % (cls, idx)
        row = dict(name=name, label='C15.date_format_roundtrip', queries=0, solver_s=0.0)
        rows.append(row)
        if not ser or not de or len(ser['calls']) <= idx or len(de['calls']) <= idx:
            row.update(status='error', error='format calls not found in source for %s' % cls)
            continue
        ser_calls = sorted(ser['calls'], key=lambda c: len(c[1]))
        kind, fmt_out = ser_calls[idx]
        same = [c[1] for c in de['calls'] if c[1] == fmt_out]
        fmt_in = same[0] if same else sorted(de['calls'], key=lambda c: len(c[1]))[idx][1]
        row.update(serialize=(kind, fmt_out), deserialize=fmt_in, helper_pads_year=pads_year)
        err = validate_model(kind, fmt_out, fmt_in, pads_year)
        if err:
            row.update(status='error', error=err)
            continue
        try:
            lang, pat = parse_language(fmt_in)
        except regex2z3.Unsupported as e:
            row.update(status='error', error='unsupported regex construct %s' % e)
            continue
        sol = z3.Solver()
        sol.set('timeout', 120000)
        text, vals = render_text(sol, kind, fmt_out, pads_year)
        sol.add(z3.Not(z3.InRe(text, lang)))
        t0 = time.time()
        r = str(sol.check())
        row['queries'] += 1
        row['solver_s'] += round(time.time() - t0, 3)
        row['result'] = r
        if r == 'unsat':
            # same directive sequence and fixed widths => unique decomposition => the parsed fields are the rendered ones
            fixed = (kind == '_strftime' and pads_year) or '%Y' not in fmt_out
            if fmt_out != fmt_in:
                row.update(status='error', error='serialize/deserialize formats differ: %r vs %r (value round trip not modelled)' % (fmt_out, fmt_in))
            else:
                row['status'] = 'ok'
                row['fixed_width_fields'] = fixed
        elif r == 'sat':
            m = sol.model()
            f = {k: m.eval(v, model_completion=True).as_long() for k, v in vals.items()}
            for k, (nm, lo, hi, w) in DIRS.items():
                f.setdefault(nm, lo if nm in ('y', 'm', 'd') else 0)
            row.update(status='violation', witness=f, info=dict(cls=cls, fields=f),
                       replay=dict(module='smtk.datefmt', fn='replay', args=dict(cls=cls, idx=idx, **f),
                                   label='C15.date_format_roundtrip', property='C15'))
        else:
            row.update(status='error', error='solver returned %s' % r)
    # DateRange discriminator: len(rendered date) == disc for every date, != disc for every datetime
    de = info.get(('DateRange', 'deserialize'))
    ser = info.get(('DateRange', 'serialize'))
    row = dict(name='daterange_discriminator', label='C15.daterange_discriminator', queries=0, solver_s=0.0)
    rows.append(row)
    if de and ser and de['disc'] is not None and len(ser['calls']) == 2:
        disc = de['disc']
        bad = None
        for which, (kind, fmt) in enumerate(sorted(ser['calls'], key=lambda c: len(c[1]))):
            sol = z3.Solver()
            sol.set('timeout', 120000)
            text, vals = render_text(sol, kind, fmt, pads_year, tag='_%d' % which)
            if which == 0:
                sol.add(z3.Length(text) != disc)      # a date whose text is not recognised as a date
            else:
                sol.add(z3.Length(text) == disc)      # a datetime mistaken for a date
            t0 = time.time()
            r = str(sol.check())
            row['queries'] += 1
            row['solver_s'] += round(time.time() - t0, 3)
            if r == 'sat':
                m = sol.model()
                bad = {k: m.eval(v, model_completion=True).as_long() for k, v in vals.items()}
                bad['which'] = which
                break
            if r != 'unsat':
                row.update(status='error', error='solver returned %s' % r)
                break
        if 'status' not in row:
            if bad is None:
                row.update(status='ok', discriminator=disc)
            else:
                f = dict(y=bad.get('y', 1), m=bad.get('m', 1), d=bad.get('d', 1))
                row.update(status='violation', witness=bad, info=dict(fields=bad),
                           replay=dict(module='smtk.datefmt', fn='replay_range', args=f, label='C15.daterange_discriminator', property='C15'))
    else:
        row.update(status='error', error='DateRange discriminator / formats not found in source')
    return rows


def replay(cls, idx, y, m, d, H=0, M=0, S=0, f=0):
    import param
    from sx.api import check
    if cls == 'Date':
        v = dt.datetime(y, m, d, H, M, S, f)
        p = param.Date()
    elif cls == 'CalendarDate':
        v = dt.date(y, m, d)
        p = param.CalendarDate()
    elif cls == 'DateRange':
        v = (dt.date(y, m, d), dt.date(y, m, d)) if idx == 0 else (dt.datetime(y, m, d, H, M, S, f), dt.datetime(y, m, d, H, M, S, f))
        p = param.DateRange()
    else:
        v = (dt.date(y, m, d), dt.date(y, m, d))
        p = param.CalendarDateRange()
    try:
        back = p.deserialize(p.serialize(v))
        ok = back == v and type(back) is type(v)
    except ValueError:
        ok = False
    check('C15.date_format_roundtrip', ok, dict(cls=cls, value=repr(v)))


def replay_range(y, m, d):
    import param
    from sx.api import check
    p = param.DateRange()
    v = (dt.date(y, m, d), dt.datetime(y, m, d, 1, 2, 3))
    try:
        back = p.deserialize(p.serialize(v))
        ok = back == v and all(type(a) is type(b) for a, b in zip(back, v))
    except ValueError:
        ok = False
    check('C15.daterange_discriminator', ok, dict(value=repr(v)))
