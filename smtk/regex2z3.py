r"""K1: Python regular expression -> z3 regex (DESIGN.md section 3).
Supported: literals, classes/ranges/negated classes over ASCII, \d \w \s categories (ASCII), '.', {m,n} * + ?,
groups (capturing / non-capturing / named), alternation, ^ \A as start, $ as "end or before one trailing \n"
(Python's semantics), \Z as end.  Anything else raises Unsupported (=> inconclusive, never 'ok')."""
import z3
import re._parser as sre_parse
import re._constants as C


class Unsupported(Exception):
    pass


ASCII_MAX = 127


def _any_char():
    return z3.Range(chr(0), chr(ASCII_MAX))


def _category(cat):
    digit = z3.Range('0', '9')
    word = z3.Union(z3.Range('a', 'z'), z3.Range('A', 'Z'), digit, z3.Re('_'))
    space = z3.Union(*[z3.Re(c) for c in ' \t\n\r\f\v'])
    if cat is C.CATEGORY_DIGIT:
        return digit
    if cat is C.CATEGORY_WORD:
        return word
    if cat is C.CATEGORY_SPACE:
        return space
    raise Unsupported(str(cat))


def _class(items):
    neg = False
    alts = []
    for op, av in items:
        if op is C.NEGATE:
            neg = True
        elif op is C.RANGE:
            alts.append(z3.Range(chr(av[0]), chr(av[1])))
        elif op is C.LITERAL:
            alts.append(z3.Re(chr(av)))
        elif op is C.CATEGORY:
            alts.append(_category(av))
        else:
            raise Unsupported(str(op))
    r = z3.Union(*alts) if len(alts) > 1 else alts[0]
    if neg:
        r = z3.Intersect(_any_char(), z3.Complement(r))
    return r


def conv(seq):
    """sre parse tree -> z3 regex.  Anchors: start anchors are dropped (the caller anchors at the start, as re.match
    does); '$' becomes an optional final newline, '\\Z' nothing."""
    parts = []
    for op, av in seq:
        if op is C.LITERAL:
            parts.append(z3.Re(chr(av)))
        elif op is C.NOT_LITERAL:
            parts.append(z3.Intersect(_any_char(), z3.Complement(z3.Re(chr(av)))))
        elif op is C.ANY:
            parts.append(z3.Intersect(_any_char(), z3.Complement(z3.Re('\n'))))
        elif op is C.IN:
            parts.append(_class(av))
        elif op in (C.MAX_REPEAT, C.MIN_REPEAT):
            lo, hi, sub = av
            r = conv(sub)
            if hi is C.MAXREPEAT:
                parts.append(z3.Concat(z3.Loop(r, lo, lo), z3.Star(r)) if lo else z3.Star(r))
            else:
                parts.append(z3.Loop(r, lo, hi))
        elif op is C.SUBPATTERN:
            parts.append(conv(av[3]))
        elif op is C.BRANCH:
            parts.append(z3.Union(*[conv(b) for b in av[1]]))
        elif op is C.AT:
            if av in (C.AT_BEGINNING, C.AT_BEGINNING_STRING):
                continue
            if av is C.AT_END:
                parts.append(z3.Option(z3.Re("\n")))
                continue
            if av is C.AT_END_STRING:
                continue
            raise Unsupported(str(av))
        else:
            raise Unsupported(str(op))
    if not parts:
        return z3.Re("")
    return z3.Concat(*parts) if len(parts) > 1 else parts[0]


def anchored_at_end(pattern):
    seq = list(sre_parse.parse(pattern))
    return bool(seq) and seq[-1][0] is C.AT and seq[-1][1] in (C.AT_END, C.AT_END_STRING)


def match_language(pattern):
    """Language of strings s with re.match(pattern, s) is not None (free suffix unless anchored at the end)."""
    r = conv(sre_parse.parse(pattern))
    if not anchored_at_end(pattern):
        r = z3.Concat(r, z3.Star(_any_char()))
    return r


def difference(impl_re, spec_re, max_len, timeout_ms=60000):
    """A string (len <= max_len, ASCII) in exactly one of the two languages, or None if there is none.
    Returns (status, witness, seconds): status in {'unsat', 'sat', 'unknown'}."""
    import time
    s = z3.String('s')
    sol = z3.Solver()
    sol.set('timeout', timeout_ms)
    sol.add(z3.Length(s) <= max_len)
    sol.add(z3.InRe(s, z3.Star(_any_char())))
    sol.add(z3.Xor(z3.InRe(s, impl_re), z3.InRe(s, spec_re)))
    t0 = time.time()
    r = str(sol.check())
    w = None
    if r == 'sat':
        w = sol.model()[s].as_string()
        w = w.encode('ascii', 'ignore').decode('unicode_escape') if '\\u{' not in w else _unescape(w)
    return r, w, time.time() - t0


def inclusion(impl_re, spec_re, max_len, timeout_ms=60000):
    """A string (len <= max_len, ASCII) in impl but not in spec.  Returns (status, witness, seconds)."""
    import time
    s = z3.String('s')
    sol = z3.Solver()
    sol.set('timeout', timeout_ms)
    sol.add(z3.Length(s) <= max_len)
    sol.add(z3.InRe(s, z3.Star(_any_char())))
    sol.add(z3.InRe(s, impl_re), z3.Not(z3.InRe(s, spec_re)))
    t0 = time.time()
    r = str(sol.check())
    w = None
    if r == 'sat':
        w = sol.model()[s].as_string()
        w = w.encode('ascii', 'ignore').decode('unicode_escape') if '\\u{' not in w else _unescape(w)
    return r, w, time.time() - t0


def _unescape(w):
    import re
    return re.sub(r'\\u\{([0-9a-fA-F]+)\}', lambda m: chr(int(m.group(1), 16)), w)
