"""Adaptations A1-A5 of CrossHair 0.0.110 for param (DESIGN.md section 2.2).
Each is a stub in the sense of the brief and is listed in every evidence file."""
import logging

import crosshair.register_contract as _rc
import crosshair.condition_parser as _cp
import crosshair.core_and_libs  # noqa: F401  ensures registrations ran
from crosshair import core as _core
from crosshair.core import NoTracing, ResumedTracing, realize, python_type
from crosshair.util import CrossHairValue
from crosshair.libimpl.builtinslib import AnySymbolicStr

ADAPTATIONS = [
    "A1 callable(x) on a symbolic int/float/bool/str/bytes/tuple/list/dict returns False without realising x",
    "A2 getattr/hasattr/setattr builtins with a concrete name on a non-symbolic object run the normal attribute protocol with tracing ON (type(o).__getattribute__ -> __getattr__ fallback; type(o).__setattr__)",
    "A3 format()/repr()/f-string of a symbolic number (repr: also of a symbolic str) yields the placeholder '<symbolic>' (message text is outside the claim) unless the harness selects the faithful policy",
    "A4 crosshair.register_contract.get_contract swallows TypeError for unhashable callables",
    "A5 param._utils._find_pname returns None and param's logger gets a NullHandler (stack walking/logging only)",
    "A7 dict(mapping-or-pairs, **kw) with concrete keys builds a real dict (CrossHair's ShellMutableMap moves a re-assigned existing key to the end, which changes iteration order relative to CPython)",
    "A8 math.trunc/floor/ceil of an object that is neither symbolic nor a plain number and implements __trunc__/__floor__/__ceil__ (rx) call that method directly; CrossHair would run the C function on a deep-realised copy of the object",
    "A9 set() / set(concrete list, tuple, set, frozenset, dict or dict view of concrete hashable elements) builds a real set (CrossHair's ShellMutableSet answers `s |= t` with a self-referential lazy union whose membership test recurses without bound)",
    "A6 PYTHONHASHSEED=0 and the search order is seeded from VERIF_SEED",
]

# --- A4
_orig_get_contract = _rc.get_contract


def _safe_get_contract(fn):
    try:
        return _orig_get_contract(fn)
    except TypeError:
        return None


_rc.get_contract = _safe_get_contract
_cp.get_contract = _safe_get_contract

# --- A1
_NONCALLABLE = (int, float, bool, str, bytes, tuple, list, dict, set, frozenset, type(None))


def _callable(x):
    with NoTracing():
        if isinstance(x, CrossHairValue):
            if python_type(x) in _NONCALLABLE:
                return False
            x = realize(x)
        return callable(x)


_core._PATCH_REGISTRATIONS[callable] = _callable

# --- A3
_orig_format = _core._PATCH_REGISTRATIONS[format]
FORMAT_POLICY = ['placeholder']


def _format(obj, fmt=""):
    with NoTracing():
        if FORMAT_POLICY[0] == 'placeholder' and isinstance(obj, CrossHairValue) and not isinstance(obj, AnySymbolicStr):
            if python_type(obj) in (int, float, bool):
                return "<symbolic>"
    return _orig_format(obj, fmt)


_core._PATCH_REGISTRATIONS[format] = _format

_orig_repr = _core._PATCH_REGISTRATIONS.get(repr)


def _repr(obj):
    # '{val!r}' in param's error messages: same policy as format()
    with NoTracing():
        if FORMAT_POLICY[0] == 'placeholder' and isinstance(obj, CrossHairValue):
            if python_type(obj) in (int, float, bool, str):
                return "<symbolic>"
    if _orig_repr is not None:
        return _orig_repr(obj)
    return repr(obj)


_core._PATCH_REGISTRATIONS[repr] = _repr

# --- A2
_MISSING = object()
_orig_getattr = _core._PATCH_REGISTRATIONS[getattr]
_orig_setattr = _core._PATCH_REGISTRATIONS[setattr]
_orig_hasattr = _core._PATCH_REGISTRATIONS[hasattr]


def _is_ch(obj):
    # call under NoTracing: real (unpatched) type
    return isinstance(obj, CrossHairValue) or type(obj).__module__.startswith('crosshair')


def _traced_lookup(obj, name):
    # mirrors CPython's slot_tp_getattr_hook: __getattribute__ then __getattr__
    with NoTracing():
        tp = type(obj)
    try:
        return tp.__getattribute__(obj, name)
    except AttributeError:
        ga = None
        for k in tp.__mro__:
            if '__getattr__' in k.__dict__:
                ga = k.__dict__['__getattr__']
                break
        if ga is None:
            raise
        return ga(obj, name)


def _use_orig(obj, name):
    return isinstance(name, AnySymbolicStr) or type(name) is not str or _is_ch(obj)


def _getattr(obj, name, default=_MISSING):
    with NoTracing():
        orig = _use_orig(obj, name)
    if orig:
        if default is _MISSING:
            return _orig_getattr(obj, name)
        return _orig_getattr(obj, name, default)
    if default is _MISSING:
        return _traced_lookup(obj, name)
    try:
        return _traced_lookup(obj, name)
    except AttributeError:
        return default


def _hasattr(obj, name):
    with NoTracing():
        orig = _use_orig(obj, name)
    if orig:
        return _orig_hasattr(obj, name)
    try:
        _traced_lookup(obj, name)
        return True
    except AttributeError:
        return False


def _setattr(obj, name, value):
    with NoTracing():
        orig = _use_orig(obj, name)
        tp = type(obj)
    if orig:
        return _orig_setattr(obj, name, value)
    return tp.__setattr__(obj, name, value)


# --- A7: dict(...) with concrete keys is a real dict (CPython insertion-order semantics)
_orig_dict = _core._PATCH_REGISTRATIONS[dict]
_DMISSING = object()


def _concrete_key(k):
    return not isinstance(k, CrossHairValue) and not (isinstance(k, tuple) and any(isinstance(i, CrossHairValue) for i in k))


def _dict(arg=_DMISSING, **kwargs):
    with NoTracing():
        real = None
        if arg is _DMISSING:
            real = dict(**kwargs)
        elif type(arg) is dict or (isinstance(arg, dict) and not _is_ch(arg)):
            if all(_concrete_key(k) for k in arg):
                real = dict(arg, **kwargs)
        elif isinstance(arg, (list, tuple)) and not _is_ch(arg):
            try:
                if all(isinstance(pr, (tuple, list)) and len(pr) == 2 and _concrete_key(pr[0]) for pr in arg):
                    real = dict(arg, **kwargs)
            except TypeError:
                real = None
        if real is not None:
            return real
    if arg is _DMISSING:
        return _orig_dict(**kwargs)
    return _orig_dict(arg, **kwargs)


_core._PATCH_REGISTRATIONS[dict] = _dict

# --- A9: set(...) of concrete elements is a real set
_orig_set = _core._PATCH_REGISTRATIONS[set]
_SETSRC = (list, tuple, set, frozenset, dict, type({}.keys()), type({}.values()))


def _set(itr=_DMISSING):
    with NoTracing():
        if itr is _DMISSING:
            return set()
        if type(itr) in _SETSRC and all(_concrete_key(k) for k in itr):
            try:
                return set(itr)
            except TypeError:
                pass
    return _orig_set(itr)


_core._PATCH_REGISTRATIONS[set] = _set

# --- A8: math functions registered with deep realisation copy arbitrary objects; leave non-symbolic protocol objects alone
import math as _math
import crosshair.libimpl.mathlib as _ml


def _plainish(x):
    return _is_ch(x) or isinstance(x, (int, float, complex, str, bytes, tuple, list, dict, set, frozenset)) or x is None


def _mk_math(fn, dunder):
    def patched(x):
        with NoTracing():
            meth = None if _plainish(x) else getattr(type(x), dunder, None)
            if meth is None:
                x = _core.deep_realize(x)
        if meth is not None:
            return meth(x)               # what math.trunc/floor/ceil do for an object implementing the protocol; tracing stays on
        return fn(x)                     # as CrossHair: the C function on the realised argument (called from the patch's own frame)
    return patched


for _name, _dunder in (('trunc', '__trunc__'), ('floor', '__floor__'), ('ceil', '__ceil__')):
    _fn = getattr(_math, _name)
    if _fn in _core._PATCH_REGISTRATIONS:
        _core._PATCH_REGISTRATIONS[_fn] = _mk_math(_fn, _dunder)

_core._PATCH_REGISTRATIONS[getattr] = _getattr
_core._PATCH_REGISTRATIONS[hasattr] = _hasattr
_core._PATCH_REGISTRATIONS[setattr] = _setattr


def selftest_a2():
    """Differential self-test of A2 against the builtins on concrete objects (run at shard start)."""
    assert _core._PATCH_REGISTRATIONS[getattr] is _getattr and _core._PATCH_REGISTRATIONS[setattr] is _setattr \
        and _core._PATCH_REGISTRATIONS[hasattr] is _hasattr and _core._PATCH_REGISTRATIONS[dict] is _dict \
        and _core._PATCH_REGISTRATIONS[callable] is _callable and _core._PATCH_REGISTRATIONS[set] is _set, "adaptations not registered"
    class D:
        def __get__(self, o, t): return 41
    class K:
        d = D()
        def __init__(self): self.a = 1
        def __getattr__(self, n):
            if n == 'dyn': return 7
            raise AttributeError(n)
    k = K()
    for n in ('a', 'd', 'dyn', 'nope', '__class__'):
        try: exp = ('v', getattr(k, n))
        except AttributeError: exp = ('e',)
        try: got = ('v', _traced_lookup(k, n))
        except AttributeError: got = ('e',)
        assert exp == got, (n, exp, got)
        assert hasattr(k, n) == (got[0] == 'v')


def apply_param_stubs():
    """A5"""
    import param
    import param._utils as _u
    import param.parameterized as _pp
    import param.parameters as _ps
    def _no_pname(name):
        return None
    for mod in (_u, _pp, _ps):
        if hasattr(mod, '_find_pname'):
            setattr(mod, '_find_pname', _no_pname)
    logging.getLogger('param').addHandler(logging.NullHandler())
    logging.getLogger('param').propagate = False
