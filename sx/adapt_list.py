"""The list of engine adaptations, importable without CrossHair (used by the evidence writer)."""
ADAPTATIONS = [
    "A1 callable(x) on a symbolic int/float/bool/str/bytes/tuple/list/dict returns False without realising x",
    "A2 getattr/hasattr/setattr builtins with a concrete name on a non-symbolic object run the normal attribute protocol with tracing ON (type(o).__getattribute__ -> __getattr__ fallback; type(o).__setattr__); differential self-test at shard start",
    "A3 format()/repr()/f-string of a symbolic number (repr: also of a symbolic str) yields the placeholder '<symbolic>' (message text is outside the claim) unless the harness selects the faithful policy",
    "A4 crosshair.register_contract.get_contract swallows TypeError for unhashable callables",
    "A5 param._utils._find_pname returns None and param's logger gets a NullHandler (stack walking/logging only)",
    "A7 dict(mapping-or-pairs, **kw) with concrete keys builds a real dict (CrossHair's ShellMutableMap moves a re-assigned existing key to the end, which changes iteration order relative to CPython)",
    "A6 PYTHONHASHSEED=0 and the search order is seeded from VERIF_SEED",
    "trusted: CPython 3.12, z3 5.1, CrossHair 0.0.110 proxies/tracer/decision tree (its exhaustion flag), the reference model of the harness",
]
