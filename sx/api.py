"""Shim imported by harnesses.  Works (a) under the SX driver with CrossHair proxies and
(b) in a plain interpreter with concrete arguments (replay).  No import of crosshair here
unless the driver already loaded it."""
import contextlib
import sys


class CheckFailed(Exception):
    def __init__(self, label, info=None):
        Exception.__init__(self, label)
        self.label = label
        self.info = info


class AssumeFailed(Exception):
    """Raised by assume() in a plain interpreter (replay of arguments outside the bounds)."""


LABELS = {}        # label -> times evaluated on this process (all paths)
PATH_LABELS = {}   # label -> times evaluated on the current path
COVER = {}         # opcode / branch reach counters
PATH_COVER = {}
_DRIVER = None     # set by sx.driver when running symbolically


def _symbolic():
    return _DRIVER is not None


def assume(cond):
    if not cond:
        if _symbolic():
            raise _DRIVER.IgnoreAttempt("assume")
        raise AssumeFailed()


def check(label, cond, info=None):
    """The only way a harness reports a violation."""
    with untraced():
        PATH_LABELS[label] = PATH_LABELS.get(label, 0) + 1
    if not cond:
        raise CheckFailed(label, info)


def cover(tag):
    with untraced():
        PATH_COVER[tag] = PATH_COVER.get(tag, 0) + 1


def untraced():
    if _symbolic():
        return _DRIVER.NoTracing()
    return contextlib.nullcontext()


def traced():
    if _symbolic():
        return _DRIVER.ResumedTracing()
    return contextlib.nullcontext()


def pick(x, lo, hi):
    """Realise a (possibly symbolic) int in [lo, hi] by an if-chain under tracing, so that the
    concrete value may cross untraced code.  Bounds are part of the claim."""
    for i in range(lo, hi):
        if x == i:
            return i
    assume(x == hi)
    return hi


def pickbool(b):
    if b:
        return True
    return False


def format_policy(policy):
    """'placeholder' (default, adaptation A3) or 'faithful'."""
    if _symbolic():
        _DRIVER.set_format_policy(policy)


def is_symbolic_run():
    return _symbolic()
