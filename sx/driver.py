"""SX driver: symbolic execution of a harness function over the real /repo code, using
CrossHair's proxies, tracer and decision tree with our own exploration loop (DESIGN.md 2.1)."""
import inspect
import math
import random
import time

from sx import adapt
from sx import api
import crosshair.statespace as ss
from crosshair.core import Patched, proxy_for_type, deep_realize, NoTracing, ResumedTracing
from crosshair.statespace import StateSpace, StateSpaceContext, RootNode, CallAnalysis, VerificationStatus
from crosshair.tracers import COMPOSITE_TRACER
from crosshair.util import UnexploredPath, IgnoreAttempt, CrossHairInternal, NotDeterministic
from crosshair.condition_parser import condition_parser
from crosshair.options import AnalysisKind
from crosshair.libimpl import builtinslib as _bl

STATS = dict(queries=0, sat=0, unsat=0, unknown=0, solver_s=0.0)
_orig_is_sat = ss.solver_is_sat


def _counted(solver, *exprs):
    t0 = time.perf_counter()
    STATS['queries'] += 1
    try:
        r = _orig_is_sat(solver, *exprs)
    except ss.UnknownSatisfiability:
        STATS['unknown'] += 1
        raise
    finally:
        STATS['solver_s'] += time.perf_counter() - t0
    STATS['sat' if r else 'unsat'] += 1
    return r


ss.solver_is_sat = _counted


class _DriverHandle:
    IgnoreAttempt = IgnoreAttempt
    NoTracing = NoTracing
    ResumedTracing = ResumedTracing

    @staticmethod
    def set_format_policy(p):
        adapt.FORMAT_POLICY[0] = p


def make_symbolic(annotation, name, rng=None):
    """Fresh symbolic value (call under NoTracing inside a StateSpaceContext).  Unlike
    proxy_for_type this never 'prematurely realises' the value; an int range is added as a solver
    constraint (a stated domain bound, no branching)."""
    from crosshair.libimpl import builtinslib as bl
    if annotation is int:
        lo, hi = rng if rng else (None, None)
        return bl.SymbolicBoundedInt(name, int, lo, hi)
    if annotation is bool:
        return bl.SymbolicBool(name)
    if annotation is float:
        return bl.PreciseIeeeSymbolicFloat(name, float)    # exact IEEE-754 double (z3 FP 11 53), NaN/inf included
    if annotation is str:
        return bl.LazyIntSymbolicStr(name)
    return proxy_for_type(annotation, name)


def jsonable(x):
    if isinstance(x, float):
        if math.isnan(x):
            return {'__float__': 'nan'}
        if math.isinf(x):
            return {'__float__': 'inf' if x > 0 else '-inf'}
        return x
    if isinstance(x, (bool, int, str)) or x is None:
        return x
    if isinstance(x, (list, tuple)):
        return [jsonable(i) for i in x]
    if isinstance(x, dict):
        return {str(k): jsonable(v) for k, v in x.items()}
    return repr(x)


def explore(fn, consts, budget_s, classify=None, seed=0, nsamples=3, path_timeout=10.0,
            smt_timeout=5.0, max_paths=None):
    """Explore fn's path tree.  consts: concrete keyword arguments (shard pins / configuration);
    every other parameter of fn is a fresh symbolic value of its annotated type.
    classify(label, info) -> known-finding id or None, evaluated in-process on realised info."""
    api._DRIVER = _DriverHandle
    adapt.selftest_a2()
    sig = inspect.signature(fn)
    ranges = fn.ranges(consts) if hasattr(fn, 'ranges') else {}
    root = RootNode()
    root._random = random.Random(seed)
    st = dict(paths=0, confirmed=0, nontrivial=0, unknown=0, ignored=0, known_hits={}, known_first={},
              violation=None, samples=[], unknown_kinds={}, harness_error=None)
    labels, cover = {}, {}
    t0 = time.monotonic()
    exhausted = False
    with condition_parser([AnalysisKind.asserts]), Patched():
        while time.monotonic() - t0 < budget_s:
            if max_paths is not None and st['paths'] >= max_paths:
                break
            st['paths'] += 1
            adapt.FORMAT_POLICY[0] = 'placeholder'
            api.PATH_LABELS.clear()
            api.PATH_COVER.clear()
            start = time.process_time()
            space = StateSpace(execution_deadline=start + path_timeout, model_check_timeout=smt_timeout,
                               search_root=root)
            analysis = None
            try:
                with StateSpaceContext(space), COMPOSITE_TRACER, NoTracing():
                    # every float of the path (inputs and coerced constants) is an exact IEEE-754 double
                    space.extra(_bl.ModelingDirector).global_representations[float] = _bl.PreciseIeeeSymbolicFloat
                    args = {}
                    for n, p in sig.parameters.items():
                        if n in consts:
                            args[n] = consts[n]
                        else:
                            args[n] = make_symbolic(p.annotation, n, ranges.get(n))
                    try:
                        with ResumedTracing():
                            fn(**args)
                        analysis = CallAnalysis(VerificationStatus.CONFIRMED)
                        if len(st['samples']) < nsamples and api.PATH_LABELS:
                            try:
                                with ResumedTracing():
                                    space.detach_path()
                                st['samples'].append(jsonable(deep_realize(args)))
                            except (IgnoreAttempt, UnexploredPath):
                                pass
                    except api.CheckFailed as e:
                        with ResumedTracing():
                            space.detach_path(e)
                        conc = jsonable(deep_realize(args))
                        info = jsonable(deep_realize(e.info))
                        k = classify(e.label, info) if classify else None
                        if k:
                            st['known_hits'][k] = st['known_hits'].get(k, 0) + 1
                            if k not in st['known_first']:
                                st['known_first'][k] = dict(label=e.label, args=conc, info=info)
                            analysis = CallAnalysis()  # handled: keep exploring
                        else:
                            st['violation'] = dict(label=e.label, args=conc, info=info)
                            analysis = CallAnalysis(VerificationStatus.REFUTED)
            except UnexploredPath as e:
                analysis = CallAnalysis(VerificationStatus.UNKNOWN)
                st['unknown'] += 1
                k = type(e).__name__ + ':' + str(e)[:100]
                st['unknown_kinds'][k] = st['unknown_kinds'].get(k, 0) + 1
            except IgnoreAttempt:
                analysis = CallAnalysis()
                st['ignored'] += 1
            except (CrossHairInternal, NotDeterministic) as e:
                st['harness_error'] = '%s: %s' % (type(e).__name__, str(e)[:300])
                break
            except api.AssumeFailed:
                st['harness_error'] = 'AssumeFailed outside symbolic mode'
                break
            except Exception as e:  # an exception escaping the harness is a harness error
                import traceback
                st['harness_error'] = 'uncaught %s: %s\n%s' % (type(e).__name__, str(e)[:300], traceback.format_exc()[-1500:])
                try:
                    st['harness_error_args'] = jsonable(deep_realize(args))
                except BaseException:
                    pass
                break
            if analysis.verification_status == VerificationStatus.CONFIRMED:
                st['confirmed'] += 1
                if api.PATH_LABELS:
                    st['nontrivial'] += 1
                for k, v in api.PATH_LABELS.items():
                    labels[k] = labels.get(k, 0) + 1
                for k, v in api.PATH_COVER.items():
                    cover[k] = cover.get(k, 0) + 1
            top, exhausted = space.bubble_status(analysis)
            if st['violation'] or exhausted:
                break
    st.update(wall=round(time.monotonic() - t0, 2), exhausted=bool(exhausted), solver=dict(STATS),
              labels=labels, cover=cover)
    st['solver']['solver_s'] = round(st['solver']['solver_s'], 3)
    return st
