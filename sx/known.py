"""known_findings.jsonl: committed, read-only at run time.
Entry: {"property","id","label": str|[str],"match": {key: value|[values]}, "what": str}
or     {"fixed": "fixed: property=<id> <commit> <what failed>"}  (suppresses nothing)."""
import json
import os

PATH = os.path.join(os.path.dirname(os.path.dirname(os.path.abspath(__file__))), 'known_findings.jsonl')


def load(prop):
    out = []
    if not os.path.exists(PATH):
        return out
    for line in open(PATH):
        line = line.strip()
        if not line or line.startswith('#'):
            continue
        d = json.loads(line)
        if 'fixed' in d:
            continue
        if d.get('property') == prop:
            out.append(d)
    return out


def _m(expected, actual):
    if isinstance(expected, list):
        return actual in expected
    return actual == expected


def classify(entries, label, info):
    for e in entries:
        labs = e['label'] if isinstance(e['label'], list) else [e['label']]
        if label not in labs:
            continue
        match = e.get('match', {})
        if not isinstance(info, dict):
            if match:
                continue
            return e['id']
        if all(k in info and _m(v, info[k]) for k, v in match.items()):
            return e['id']
    return None
