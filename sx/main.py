"""vcheck run <id> [--tier quick|thorough] | vcheck replay <path>"""
import argparse
import hashlib
import importlib
import json
import os
import shutil
import subprocess
import sys
import tempfile
import time

HERE = os.path.dirname(os.path.dirname(os.path.abspath(__file__)))
EVID = os.path.join(HERE, 'evidence')
NPROC = int(os.environ.get('VERIF_NPROC', '16'))
PY = sys.executable
REPO = os.environ.get('VERIF_REPO', '/repo')      # the tree under analysis (default /repo; tools/mutcheck.sh may point it at a scratch worktree)
ENV = dict(os.environ, PYTHONPATH=REPO + ':' + HERE, PYTHONHASHSEED='0', PYTHONDONTWRITEBYTECODE='1')


def plain_replay(rep, profile=False, timeout=300):
    """Run a replay record in a fresh plain interpreter."""
    with tempfile.NamedTemporaryFile('w', suffix='.json', dir=EVID, delete=False) as f:
        json.dump(rep, f)
        p = f.name
    try:
        cmd = [PY, '-m', 'sx.replay', p] + (['--profile'] if profile else [])
        r = subprocess.run(cmd, cwd=HERE, env=ENV, capture_output=True, text=True, timeout=timeout)
        lines = [l for l in r.stdout.strip().splitlines() if l.startswith('{')]
        if r.returncode != 0 or not lines:
            return {'outcome': 'error', 'error': (r.stderr or r.stdout)[-1500:]}
        return json.loads(lines[-1])
    except subprocess.TimeoutExpired:
        return {'outcome': 'error', 'error': 'replay timeout'}
    finally:
        os.unlink(p)


def write_replay(prop, rep):
    d = os.path.join(EVID, 'replays', prop)
    os.makedirs(d, exist_ok=True)
    h = hashlib.sha1(json.dumps(rep, sort_keys=True).encode()).hexdigest()[:12]
    p = os.path.join(d, h + '.json')
    with open(p, 'w') as f:
        json.dump(rep, f, indent=1)
    return p


def run_shards(prop, shards, seed):
    """Run shards in a pool of NPROC worker processes (each takes batches of shards, so that the interpreter and
    CrossHair start-up cost is paid once per batch); returns list of result dicts (same order)."""
    tmp = tempfile.mkdtemp(prefix='sx_', dir=EVID)
    n = len(shards)
    results = [None] * n
    # longest budgets first, then small batches handed out dynamically
    order = sorted(range(n), key=lambda i: (-shards[i].get('cost', 0), -shards[i]['budget_s']))
    bsize = max(1, min(8, n // (NPROC * 8)))
    nb = (n + bsize - 1) // bsize
    batches = [order[i::nb] for i in range(nb)]      # strided: neighbouring (similar-cost) shards go to different batches
    running = {}
    bi = 0

    def empty(sp, msg):
        return dict(shard=sp['name'], harness_error=msg, paths=0, confirmed=0, nontrivial=0, unknown=0, ignored=0,
                    known_hits={}, known_first={}, violation=None, samples=[], unknown_kinds={}, wall=0, exhausted=False,
                    solver=dict(queries=0, sat=0, unsat=0, unknown=0, solver_s=0.0), labels={}, cover={})
    try:
        while bi < len(batches) or running:
            while bi < len(batches) and len(running) < NPROC:
                idxs = batches[bi]
                specs = [dict(shards[i], property=prop, seed=seed, out=os.path.join(tmp, 'o%d.json' % i)) for i in idxs]
                specp = os.path.join(tmp, 'b%d.json' % bi)
                json.dump(specs, open(specp, 'w'))
                errf = open(os.path.join(tmp, 'e%d.txt' % bi), 'w')
                proc = subprocess.Popen([PY, '-m', 'sx.shard', specp], cwd=HERE, env=ENV, stdout=errf, stderr=subprocess.STDOUT)
                hard = sum(sp['budget_s'] + 4 * sp.get('path_timeout', 10.0) for sp in specs) + 60
                running[bi] = (proc, time.monotonic(), errf, idxs, hard)
                bi += 1
            time.sleep(0.05)
            for b in list(running):
                if b not in running:
                    continue
                proc, t0, errf, idxs, hard = running[b]
                rc = proc.poll()
                if rc is None and time.monotonic() - t0 > hard:
                    proc.kill()
                    proc.wait()
                    rc = -9
                if rc is None:
                    continue
                errf.close()
                del running[b]
                for i in idxs:
                    outp = os.path.join(tmp, 'o%d.json' % i)
                    if os.path.exists(outp):
                        results[i] = json.load(open(outp))
                    else:
                        err = open(errf.name).read()[-1500:]
                        results[i] = empty(shards[i], 'shard process failed rc=%s: %s' % (rc, err))
                if os.environ.get('VERIF_STOP_AT_FIRST') == '1' and any(results[i].get('violation') for i in idxs):
                    # development aid for the seeded-change matrix (never set by a registered command): one counterexample
                    # is enough, the shards not yet finished are recorded as not run
                    bi = len(batches)
                    for b2 in list(running):
                        running[b2][0].kill()
                        running[b2][0].wait()
                        running[b2][2].close()
                        del running[b2]
                    for j in range(n):
                        if results[j] is None:
                            results[j] = dict(empty(shards[j], None), not_run=True)
    finally:
        for b in running:
            running[b][0].kill()
        shutil.rmtree(tmp, ignore_errors=True)
    return results


def cmd_run(prop, tier):
    t0 = time.monotonic()
    seed = int(os.environ.get('VERIF_SEED', '0') or 0)
    os.makedirs(EVID, exist_ok=True)
    mod = importlib.import_module('harness.' + prop.lower())
    from sx import known, adapt_list
    shards = mod.shards(tier)
    only = os.environ.get('VERIF_ONLY')          # development aid: run the shards whose name matches; never used by a registered command
    if only:
        import re as _re
        shards = [sp for sp in shards if _re.search(only, sp['name'])]
        os.environ['VERIF_EVIDENCE_SUFFIX'] = '.dev'
    # scheduling hints (measured wall time of each shard in an earlier run; only affects the order)
    cpath = os.path.join(HERE, 'costs', '%s_%s.json' % (prop, tier))
    if os.path.exists(cpath):
        costs = json.load(open(cpath))
        for sp in shards:
            sp.setdefault('cost', costs.get(sp['name'], 0))
    if tier == 'thorough':
        # size the thorough tier by total wall time: cap the per-shard budget so that the worst case (every shard
        # running into its budget) stays near the target; shards that exhaust their tree earlier are unaffected
        target = float(os.environ.get('VERIF_THOROUGH_WALL', '1500'))
        cap = max(4.0, target * NPROC / max(1, len(shards)))
        for sp in shards:
            sp['budget_s'] = min(sp['budget_s'], cap)
    results = run_shards(prop, shards, seed)
    t_shards = time.monotonic() - t0
    kf = known.load(prop)
    kf_by_id = {e['id']: e for e in kf}
    exit_code = 0
    messages = []
    violations = []
    harness_errors = []
    known_lines = {}

    # --- committed known findings: each is replayed concretely on every run
    for e in kf:
        if 'replay' in e:
            rep = e['replay']
            r = plain_replay(rep)
            if r.get('outcome') == 'check_failed' and r.get('label') in (e['label'] if isinstance(e['label'], list) else [e['label']]):
                known_lines[e['id']] = e['what']
            # no longer failing => fixed or changed: print nothing; exploration decides the rest

    # --- shard results
    agg = dict(paths=0, confirmed=0, nontrivial=0, unknown=0, ignored=0, queries=0, sat=0, unsat=0,
               smt_unknown=0, solver_s=0.0)
    labels, cover, unknown_kinds, known_hits = {}, {}, {}, {}
    samples = []
    shard_rows = []
    for sp, r in zip(shards, results):
        for k in ('paths', 'confirmed', 'nontrivial', 'unknown', 'ignored'):
            agg[k] += r[k]
        agg['queries'] += r['solver']['queries']
        agg['sat'] += r['solver']['sat']
        agg['unsat'] += r['solver']['unsat']
        agg['smt_unknown'] += r['solver']['unknown']
        agg['solver_s'] += r['solver']['solver_s']
        for k, v in r['labels'].items():
            labels[k] = labels.get(k, 0) + v
        for k, v in r['cover'].items():
            cover[k] = cover.get(k, 0) + v
        for k, v in r['unknown_kinds'].items():
            unknown_kinds[k] = unknown_kinds.get(k, 0) + v
        for k, v in r['known_hits'].items():
            known_hits[k] = known_hits.get(k, 0) + v
        shard_rows.append(dict(name=sp['name'], fn=sp['fn'], consts=sp.get('consts', {}), paths=r['paths'],
                               confirmed=r['confirmed'], unknown=r['unknown'], exhausted=r['exhausted'],
                               wall_s=r['wall'], queries=r['solver']['queries']))
        if r.get('harness_error'):
            harness_errors.append('%s: %s' % (sp['name'], r['harness_error']))
        for s in r['samples'][:1]:
            samples.append(dict(shard=sp['name'], module=sp['module'], fn=sp['fn'], args=s))
        if r['violation']:
            violations.append((sp, r['violation']))

    # --- known findings hit during exploration: replay the first hit of each entry
    seen_first = {}
    for sp, r in zip(shards, results):
        for k, first in r['known_first'].items():
            if k not in seen_first:
                seen_first[k] = (sp, first)
    for k, (sp, first) in seen_first.items():
        rep = dict(module=sp['module'], fn=sp['fn'], args=first['args'], label=first['label'], property=prop)
        rr = plain_replay(rep)
        if rr.get('outcome') == 'check_failed' and rr.get('label') == first['label']:
            known_lines.setdefault(k, kf_by_id[k]['what'])
        else:
            harness_errors.append('known finding %s: first hit does not replay (%s)' % (k, rr))

    # --- violations: replay before reporting
    reported = []
    for sp, v in violations:
        rep = dict(module=sp['module'], fn=sp['fn'], args=v['args'], label=v['label'], info=v['info'], property=prop)
        rr = plain_replay(rep)
        if rr.get('outcome') == 'check_failed' and rr.get('label') == v['label']:
            p = write_replay(prop, rep)
            reported.append(dict(label=v['label'], replay=p, shard=sp['name'], args=v['args'], info=v['info']))
        else:
            harness_errors.append('counterexample for %s in shard %s does not replay on the real code: %s | args=%s'
                                  % (v['label'], sp['name'], rr, json.dumps(v['args'])))

    # --- extra (SMT kernel) checks
    extra_rows = []
    if hasattr(mod, 'extra'):
        for row in mod.extra(tier):
            extra_rows.append(row)
            agg['queries'] += row.get('queries', 0)
            agg['solver_s'] += row.get('solver_s', 0.0)
            st = row['status']
            if st == 'violation':
                rep = row['replay']
                rr = plain_replay(rep)
                if rr.get('outcome') == 'check_failed' and rr.get('label') == row['label']:
                    p = write_replay(prop, rep)
                    reported.append(dict(label=row['label'], replay=p, shard=row['name'], args=rep.get('args'), info=row.get('info')))
                else:
                    harness_errors.append('solver witness of %s does not replay on the real code: %s' % (row['name'], rr))
            elif st == 'known':
                known_lines.setdefault(row['known_id'], kf_by_id.get(row['known_id'], {}).get('what', row.get('what', '')))
            elif st == 'error':
                harness_errors.append('%s: %s' % (row['name'], row.get('error')))
            if st in ('ok', 'known'):
                labels[row['label']] = labels.get(row['label'], 0) + 1

    # --- witness (reachability twin): one sample per harness function replays to completion
    functions = set()
    witnessed = {}
    for s in samples:
        key = (s['module'], s['fn'])
        if key in witnessed:
            continue
        rr = plain_replay(dict(module=s['module'], fn=s['fn'], args=s['args']), profile=True)
        witnessed[key] = rr.get('outcome')
        if rr.get('outcome') != 'completed':
            harness_errors.append('witness sample of %s.%s does not replay to completion: %s' % (key[0], key[1], rr))
        functions.update(rr.get('functions', []))
    fnkeys = {(sp['module'], sp['fn']) for sp in shards}
    viol_keys = {(sp['module'], sp['fn']) for sp, v in violations}
    for key in fnkeys - set(witnessed) - viol_keys:
        harness_errors.append('vacuous: no confirmed path evaluating a label in %s.%s' % key)

    # --- reach check
    expected = list(getattr(mod, 'LABELS', []))
    shadow = set(getattr(mod, 'SHADOWED_BY_KNOWN', {}).keys()) if known_lines else set()
    unreached = [l for l in expected if labels.get(l, 0) == 0]
    hard_unreached = [l for l in unreached if l not in shadow]
    if hard_unreached:
        harness_errors.append('labels never evaluated on a confirmed path: %s' % hard_unreached)

    for k, what in sorted(known_lines.items()):
        print('KNOWN-FINDING: property=%s %s' % (prop, what))
    shown = set()
    for v in reported:
        if v['label'] in shown and len(shown) >= 1 and sum(1 for _ in shown) and v['label'] in shown:
            continue          # one line per distinct failing label; all replays are listed in the evidence file
        shown.add(v['label'])
        print('VIOLATION property=%s replay=%s' % (prop, v['replay']))
        print('  label=%s shard=%s args=%s info=%s' % (v['label'], v['shard'], json.dumps(v['args']), json.dumps(v['info'])[:600]))
    if len(reported) > len(shown):
        print('  (%d further counterexamples with the same labels; see violations_reported in the evidence file)' % (len(reported) - len(shown)))
    for h in harness_errors[:4]:
        print('HARNESS-ERROR: %s' % h[:700], file=sys.stderr)
    if len(harness_errors) > 4:
        print('HARNESS-ERROR: ... and %d more' % (len(harness_errors) - 4), file=sys.stderr)
    if reported:
        exit_code = 1
    elif harness_errors:
        exit_code = 3

    exhaustive = all(r['exhausted'] for r in results) and not harness_errors and agg['unknown'] == 0
    wall = round(time.monotonic() - t0, 2)
    bounds = mod.bounds(tier) if hasattr(mod, 'bounds') else {}
    ev = dict(
        property_id=prop, tier=tier, seed=seed, level='other',
        coverage=dict(
            explanation=("Bounded symbolic execution of the real /repo code (CrossHair proxies + z3, own driver): "
                         "each harness argument not pinned by a shard is a symbolic value; every branch on it is an SMT "
                         "query; a shard's verdict is 'path tree exhausted and every leaf satisfied all labelled "
                         "assertions' (exhaustive=true) or, if the budget ran out first, restricted to the paths "
                         "confirmed. Counterexamples are solver models replayed in a plain interpreter before being "
                         "reported. " + getattr(mod, 'EXPLANATION', '')),
            evaluations=agg['paths'], distinct_nontrivial=agg['nontrivial'],
            rule=("one evaluation = one explored path of the decision tree (distinct by construction: distinct "
                  "sequences of solver-decided branch outcomes); non-trivial = path ran to completion (not cut by an "
                  "assume, not unknown) and evaluated at least one property label"),
            samples=[dict(shard=s['shard'], fn=s['fn'], args=s['args']) for s in samples[:6]],
            obligations=agg['queries'], discharged=agg['sat'] + agg['unsat'],
            exhaustive=exhaustive,
            solver_time_s=round(agg['solver_s'], 2), smt_unknown=agg['smt_unknown'],
            confirmed_paths=agg['confirmed'], unknown_paths=agg['unknown'], ignored_paths=agg['ignored'],
            unknown_kinds=unknown_kinds, shards=shard_rows, bounds=bounds,
            labels=labels, cover=cover, unreached_labels=unreached,
            stubs=getattr(mod, 'STUBS', []), outside_claim=getattr(mod, 'OUTSIDE', []),
            functions_encoded=sorted(functions), known_findings_hit=known_hits,
            known_findings_reported=sorted(known_lines), extra_checks=extra_rows,
            harness_errors=harness_errors,
            violations_reported=[dict(label=v['label'], replay=v['replay']) for v in reported],
        ),
        assumptions=list(adapt_list.ADAPTATIONS) + list(getattr(mod, 'ASSUMPTIONS', [])),
        wall_s=wall, violations=len(reported),
    )
    with open(os.path.join(EVID, prop + os.environ.get('VERIF_EVIDENCE_SUFFIX', '') + '.json'), 'w') as f:
        json.dump(ev, f, indent=1)
    print('shard phase %.1fs' % t_shards, file=sys.stderr)
    print('%s tier=%s paths=%d confirmed=%d nontrivial=%d unknown=%d ignored=%d queries=%d solver_s=%.1f exhaustive=%s '
          'known_hits=%s wall=%.1fs exit=%d' % (prop, tier, agg['paths'], agg['confirmed'], agg['nontrivial'], agg['unknown'],
                                               agg['ignored'], agg['queries'], agg['solver_s'], exhaustive,
                                               known_hits, wall, exit_code))
    return exit_code


def cmd_replay(path):
    rep = json.load(open(path))
    r = plain_replay(rep)
    print(json.dumps(r, indent=1))
    if r.get('outcome') == 'check_failed':
        print('VIOLATION property=%s replay=%s' % (rep.get('property', '?'), path))
        return 1
    return 0 if r.get('outcome') == 'completed' else 3


def main():
    ap = argparse.ArgumentParser()
    ap.add_argument('cmd')
    ap.add_argument('target')
    ap.add_argument('--tier', default=os.environ.get('VERIF_TIER', 'quick'))
    a = ap.parse_args()
    if a.cmd == 'run':
        sys.exit(cmd_run(a.target.upper(), a.tier))
    elif a.cmd == 'replay':
        sys.exit(cmd_replay(a.target))
    sys.exit(2)


if __name__ == '__main__':
    main()
