"""Replay a counterexample / sample in a plain interpreter (no CrossHair):
   python -m sx.replay <replay.json> [--profile]
prints one JSON line: {"outcome": check_failed|completed|assume_failed|error, ...}"""
import importlib
import json
import sys
import traceback


def decode(x):
    if isinstance(x, dict):
        if set(x) == {'__float__'}:
            return float(x['__float__'])
        return {k: decode(v) for k, v in x.items()}
    if isinstance(x, list):
        return [decode(i) for i in x]
    return x


def run(rep, profile=False):
    import param
    import numbergen
    import os
    repo = os.environ.get('VERIF_REPO', '/repo').rstrip('/') + '/'
    assert param.__file__.startswith(repo) and numbergen.__file__.startswith(repo), param.__file__
    assert 'crosshair' not in sys.modules
    from sx import api
    mod = importlib.import_module(rep['module'])
    fn = getattr(mod, rep['fn'])
    args = decode(rep['args'])
    funcs = set()
    if profile:
        def prof(frame, event, arg):
            if event == 'call':
                f = frame.f_code.co_filename
                if f.startswith(repo):
                    funcs.add('%s:%s' % (f[len(repo):], frame.f_code.co_qualname))
        sys.setprofile(prof)
    out = {}
    try:
        fn(**args)
        out['outcome'] = 'completed'
    except api.CheckFailed as e:
        out.update(outcome='check_failed', label=e.label, info=repr(e.info)[:2000])
    except api.AssumeFailed:
        out['outcome'] = 'assume_failed'
    except Exception as e:
        out.update(outcome='error', error='%s: %s' % (type(e).__name__, e), tb=traceback.format_exc()[-2000:])
    finally:
        sys.setprofile(None)
    out['labels'] = dict(api.PATH_LABELS)
    if profile:
        out['functions'] = sorted(funcs)
    return out


if __name__ == '__main__':
    rep = json.load(open(sys.argv[1]))
    print(json.dumps(run(rep, '--profile' in sys.argv)))
