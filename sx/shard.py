"""Run one shard in its own process:  python -m sx.shard <spec.json> <out.json>"""
import importlib
import json
import os
import sys


def main():
    """argv[1]: json file with a list of shard specs (run sequentially in this process; each spec has an 'out' path)."""
    specs = json.load(open(sys.argv[1]))
    import param
    import numbergen
    repo = os.environ.get('VERIF_REPO', '/repo').rstrip('/') + '/'
    assert param.__file__.startswith(repo) and numbergen.__file__.startswith(repo), param.__file__
    from sx import driver, adapt, known
    adapt.apply_param_stubs()
    for spec in specs:
        for k in driver.STATS:
            driver.STATS[k] = 0 if k != 'solver_s' else 0.0
        mod = importlib.import_module(spec['module'])
        fn = getattr(mod, spec['fn'])
        kf = known.load(spec['property'])
        res = driver.explore(fn, spec.get('consts', {}), spec['budget_s'],
                             classify=lambda label, info: known.classify(kf, label, info),
                             seed=spec.get('seed', 0), path_timeout=spec.get('path_timeout', 10.0),
                             smt_timeout=spec.get('smt_timeout', 5.0), max_paths=spec.get('max_paths'))
        res['shard'] = spec['name']
        out = spec['out']
        tmp = out + '.tmp'
        with open(tmp, 'w') as f:
            json.dump(res, f)
        os.replace(tmp, out)


if __name__ == '__main__':
    main()
