"""Run one shard in its own process:  python -m sx.shard <spec.json> <out.json>"""
import importlib
import json
import os
import sys


def main():
    spec = json.load(open(sys.argv[1]))
    out = sys.argv[2]
    import param
    import numbergen
    assert param.__file__.startswith('/repo/') and numbergen.__file__.startswith('/repo/'), param.__file__
    from sx import driver, adapt, known
    adapt.apply_param_stubs()
    mod = importlib.import_module(spec['module'])
    fn = getattr(mod, spec['fn'])
    kf = known.load(spec['property'])
    res = driver.explore(fn, spec.get('consts', {}), spec['budget_s'],
                         classify=lambda label, info: known.classify(kf, label, info),
                         seed=spec.get('seed', 0), path_timeout=spec.get('path_timeout', 10.0),
                         smt_timeout=spec.get('smt_timeout', 5.0), max_paths=spec.get('max_paths'))
    res['shard'] = spec['name']
    tmp = out + '.tmp'
    with open(tmp, 'w') as f:
        json.dump(res, f)
    os.replace(tmp, out)


if __name__ == '__main__':
    main()
