NOT_YET = {}
CLAIMED['C18'] = ('6/C18', 'Bounded-exhaustive symbolic check: every program of k list-/dict-style mutations (symbolic opcode, index, key, '
                  'object choice; k=2 quick, k=3 thorough) on the real ListProxy/Selector code is compared step by step with a Python '
                  'list + ordered-dict model (views, names, range, pop result, one event per mutation, membership of assigned values).',
                  'symbolic execution (CrossHair+z3) of Selector/ListProxy against a list/ordered-dict model, path tree exhausted per shard')
