NOT_YET = {}
CLAIMED['C18'] = ('6/C18', 'Bounded-exhaustive symbolic check: every program of k list-/dict-style mutations (symbolic opcode, index, key, '
                  'object choice; k=2 quick, k=3 thorough) on the real ListProxy/Selector code is compared step by step with a Python '
                  'list + ordered-dict model (views, names, range, pop result, one event per mutation, membership of assigned values).',
                  'symbolic execution (CrossHair+z3) of Selector/ListProxy against a list/ordered-dict model, path tree exhausted per shard')
CLAIMED['C13'] = ('6/C13', 'Bounded-exhaustive symbolic check: every program of k operations (namespace reads that populate caches, class-level '
                  'sets, add_parameter new/overriding, instance creation, instance sets; symbolic opcode and target class; k=3 quick, k=4 '
                  'thorough) over a chain and a diamond hierarchy; after the steps every class/instance is compared: '
                  'inspect.getattr_static/getattr vs .param[...], in, iteration, values(), watch, serialize, repr, and class-level watchers '
                  'observe getattr == event.new.',
                  'symbolic execution (CrossHair+z3) of the Parameters namespace/cache code against attribute lookup, path tree exhausted per shard')
CLAIMED['C01'] = ('6/C01', 'Bounded-exhaustive symbolic check per parameter family: the class is declared inside the path from a symbolic '
                  'constraint configuration (bounds presence/values/inclusivity over unbounded ints and exact IEEE doubles, allow_None, '
                  'lengths, item types, steps), one candidate value from a tagged union (symbolic int/float/str/bool or pool object) is '
                  'assigned through the chosen route, and accept/reject, exception class and read-back are compared with a docs-derived '
                  'acceptance predicate; a two-step harness checks that the constraints in force at assignment time are applied; the '
                  'Color hex language is decided by a regex->z3 kernel (unsat of the symmetric difference up to length 8/10).',
                  'symbolic execution (CrossHair+z3) of the validators with symbolic constraint configuration and value; regex language equivalence in z3')
CLAIMED['C03'] = ('6/C03', 'Bounded symbolic check against a reference dispatcher written from the statement: 2 (quick) / 3 (thorough) watchers with '
                  'symbolic configuration (parameter subset, onlychanged, queued, precedence, args/kwargs mode, slot watcher, one cascading '
                  'callback) x every program of k=2/3 symbolic operations (set, unwatch, trigger, slot set; unbounded int values); call '
                  'sequence, old/new/type of every event and the values visible at callback entry are compared after each operation; '
                  'changes-only filtering is checked on all ordered pairs of an equality-subtle value pool with a three-valued oracle.',
                  'symbolic execution (CrossHair+z3) of the watcher dispatch code against a reference dispatcher model, path tree exhausted per shard')
CLAIMED['C04'] = ('6/C04', 'Bounded symbolic check against the reference dispatcher with a context stack: programs of k=3 (quick; plus a nested '
                  'family of length 4) / 4 (thorough) symbolic operations over set/update/trigger/Event and ENTER/EXIT opcodes for '
                  'batch_call_watchers, discard_events and update-as-context (nesting depth 2), open contexts closed and compared at the '
                  'end; two recorded deviations of the implementation are recognised only when the real trace equals the trace of the '
                  'model variant encoding exactly that deviation.',
                  'symbolic execution (CrossHair+z3) of batching/trigger/discard code against a reference dispatcher with context stack')
CLAIMED['C05'] = ('6/C05', 'Bounded-exhaustive symbolic fault injection with a differential oracle: one or two failing operations of symbolic kind '
                  '(23 kinds, listed in the evidence file: raising watcher during set/trigger/batch flush/update/queued callback, rejected value or unknown key at a '
                  'symbolic position of param.update, unknown trigger name, trigger rejecting a value invalidated in place, exception escaping the body of each context manager, rejected '
                  'constructor value), optionally inside a surrounding batch, symbolic raiser precedence and values; afterwards a fixed probe '
                  'program runs on the faulted object and on a freshly built twin and the callback traces, values, constant flags and Event '
                  'state must coincide; applied-before-rejection changes must be announced by the raise.',
                  'symbolic execution (CrossHair+z3) with symbolic fault kind/position, differential comparison against a fresh twin object')
CLAIMED['C02'] = ('6/C02', 'Bounded-exhaustive symbolic check: after a symbolic prefix of <=2 successful operations (plain set, link to a source '
                  'Parameter/bind/rx, update) one rejected attempt of symbolic kind (invalid plain value, invalid-valued reference, constant, '
                  'readonly) through a symbolic route (instance, single-key update, class) with symbolic values; a deep snapshot (values, refs, '
                  'watcher tables of every object, batching state, Parameter slots, dynamic-generator state) and the event log are compared '
                  'before/after, and the old link must keep driving the parameter while the attempted one must not.',
                  'symbolic execution (CrossHair+z3) of Parameter.__set__ with symbolic history and rejected value; snapshot comparison')
CLAIMED['C08'] = ('6/C08', 'Bounded symbolic check: a target with two allow_refs Integer parameters (one bounded) and a nested_refs List linked (in '
                  'the constructor or later) to Parameter / bind / rx / depends-function references; after each of k=3/4 symbolic operations '
                  '(source updates incl. values invalid for the target, relinks, plain overrides, update-context enter/exit, relinking the '
                  'other parameters; symbolic values) the held values are compared with an independently computed resolution of the '
                  'currently installed reference and the sources\' watcher tables with the links that should exist.',
                  'symbolic execution (CrossHair+z3) of the reference linking/propagation code against an independent resolution model')
CLAIMED['C07'] = ('6/C07', 'Bounded-exhaustive symbolic check: a parent whose depends(watch=True) method follows a path dependency set (a.x | a.x,a.y | '
                  'a.x,a.b.x | a.param) over pools of sub-objects; after every one of k=3/4 symbolic operations (attach/replace/detach at '
                  'depth 1 and 2, leaf assignments on attached and detached objects, symbolic values) the number of calls is compared with a '
                  'path-value model (value reached before vs after, both sides resolving), operations on detached objects must be silent and '
                  'detached objects must hold no watcher.',
                  'symbolic execution (CrossHair+z3) of the dynamic-dependency rebinding code against a path-value model')
CLAIMED['C06'] = ('6/C06', 'Bounded-exhaustive symbolic check: classes built inside the path from symbolic choices (dependency set, on_init, '
                  'override pattern: none / decorated override / undecorated override / grandchild of an override / mixin), a method-on-method '
                  'dependency and a function-form dependency; after construction and after each of k=2/3 symbolic operations (set, slot set, '
                  'update, two kinds of batch; symbolic values) the number of calls of each method equals 1 iff at least one resolved '
                  'dependency changed, 0 otherwise.',
                  'symbolic execution (CrossHair+z3) of the depends/watch installation and dispatch code against a call-count model')
CLAIMED['C09'] = ('6/C09', 'Bounded symbolic check against plain-Python evaluation: e1 = op1(root, X) with op1 drawn from the full operator table of rx '
                  '(forward and reflected binary operators, unary operators, .rx helpers, getitem, method call; table completeness checked '
                  'against the class dict at run time), X a constant / Parameter / bind function / the root; a derived e2 = op2(e1, Y) built '
                  'at a symbolic point of the history; histories of symbolic steps (set root, set parameter operand, read e1, derive/read e2) '
                  'with and without a .rx.watch callback; every read equals the plain result or raises the same exception class, errors clear '
                  'when the inputs are valid again.',
                  'symbolic execution (CrossHair+z3) of rx evaluation/invalidation against a plain-Python evaluator of the same expression tree')
CLAIMED['C10'] = ('6/C10', 'Bounded-exhaustive symbolic schedule check on a real asyncio loop (fresh per path): N=2/3 assignments of symbolic kind '
                  '(coroutine function, two-value async generator, plain value; optionally the identical function object re-assigned) '
                  'followed by every admissible completion order of the pending futures (solver-chosen indices); an rx pipeline through a '
                  'coroutine with 2/3 root updates likewise; final value = result of the latest assignment, no superseded result observed '
                  'after a newer one, a plain value cancels pending references.',
                  'symbolic execution (CrossHair+z3) over assignment kinds and completion orders with hand-resolved futures')
CLAIMED['C11'] = ('6/C11', 'Bounded symbolic check against an independent MRO slot resolver: hierarchies A>B, A>M>B (M not declaring) and a diamond, '
                  'each declaring level specifying a symbolic subset of the attributes with symbolic values, optional change of Parameter '
                  'type (Number>Integer, Parameter(None)>Integer), creation by class statement or add_parameter; the merged Parameter is '
                  'compared slot by slot (nearest holder, instantiate inherited, allow_None recomputed) and class creation must fail exactly '
                  'when the merged non-None default violates the merged bounds/type (None re-checked only on type change).',
                  'symbolic execution (CrossHair+z3) of the metaclass slot inheritance against an independent resolver')
CLAIMED['C12'] = ('6/C12', 'Bounded-exhaustive symbolic check against an ownership model: classes A and B(A) (Integer, List with instantiate on/off, '
                  'constant, Selector without objects) under every history of k=3/4 symbolic operations (create instance with/without kwarg, '
                  'instance set, assigning the identical current class default, class set on A/B, in-place append, per-instance bounds edit, '
                  'class-level Parameter edit, per-instance Selector.objects append, class-level reassignment of the constant; symbolic '
                  'values); after every step all classes and instances are compared with the model (who owns which value / Parameter object).',
                  'symbolic execution (CrossHair+z3) of instance/class value and Parameter-object handling against an ownership model')
CLAIMED['C14'] = ('6/C14', 'Bounded-exhaustive symbolic check: an instance of Q(P) with constant parameters (one with a None default) and a readonly one; '
                  'every history of k=3/4 symbolic operations (instance set, update, class set on P/Q, readonly set at three levels, '
                  'edit_constant ENTER/EXIT/exceptional EXIT nested up to 2, set of name) with objects chosen from a pool by symbolic index; '
                  'the held object changes only inside edit_constant or by re-assigning the identical object, other attempts raise TypeError, '
                  'class-level sets leave the instance alone, every constant flag is restored on every exit.',
                  'symbolic execution (CrossHair+z3) of the constant/readonly guard and edit_constant against an identity model')
CLAIMED['C15'] = ('6/C15', 'Bounded-exhaustive symbolic round-trip check with the JSON text abstracted by the stdlib contract: groups of parameters '
                  '(Integer, Number/allow_None, String<=4 chars, Boolean, Tuple, NumericTuple, XYCoordinates, Range, List, Dict, Selector, '
                  'ListSelector, Color, Date, CalendarDate, DateRange, CalendarDateRange) get symbolic values (unbounded ints, exact IEEE '
                  'doubles), are serialized (instance/class level, 4 subset masks), deserialized and rebuilt; equality and identical type '
                  'per parameter, also through serialize_value/deserialize_value. The date format round trip for every year 1..9999 and '
                  'the DateRange discriminator are decided in z3 from the format strings read from the source (unsat of "does not parse").',
                  'symbolic execution (CrossHair+z3) of the serializer loop and per-type hooks with a JSON contract stub; strftime/strptime format model in z3')
CLAIMED['C16'] = ('6/C16', 'Bounded-exhaustive symbolic check: one parameter per path of 16 schema-supported kinds, declared from a symbolic '
                  'configuration (bounds presence/values/inclusivity over unbounded ints and finite IEEE doubles, allow_None, length, item '
                  'type, object lists) with a valid symbolic value; the generated schema must be well-formed, the serialized value must '
                  'validate, null must validate when allow_None, and a symbolic numeric probe outside the hard bounds of an Integer/Number '
                  'must be rejected. The evaluator used on symbolic values is cross-checked against the real jsonschema package on every '
                  'concrete replay.',
                  'symbolic execution (CrossHair+z3) of schema generation with a JSON-Schema evaluator over symbolic numbers')
CLAIMED['C17'] = ('6/C17', 'Bounded-exhaustive symbolic check (finite domains): an object with Integer, List, sub-object, allow_refs parameter, a '
                  'depends(watch=True) method (optionally over a sub-object parameter) and a foreign bound-method watcher; symbolic pre-history, '
                  'copy mechanism (copy.deepcopy, pickle protocol 2/5), and a post-history of 2 symbolic operations applied to original or '
                  'copy (set, in-place mutation, Parameter-attribute edit, sub-object set, linking/overriding a reference, source update); '
                  'copy succeeds, state is equal, nothing mutable is shared, dependent methods and watchers act on the right side only.',
                  'symbolic execution (CrossHair+z3) of copy/pickle state capture and restore with symbolic histories on both sides')
CLAIMED['C19'] = ('6/C19', 'Bounded-exhaustive symbolic check (finite time domain [0,3]): two instances with a call-counting dynamic value, a '
                  'time-function generator that raises at time 0 and a seeded time-dependent numbergen.UniformRandom; every program of k=3/5 '
                  'symbolic operations (set time, advance, read on either instance, inspect_value, nested time contexts left normally or by '
                  'StopIteration, state push/pop); a table keyed by (generator, time) gives the same value whatever the visiting order and '
                  'instance, repeated reads and inspection do not call the generator, a failing generator fails again at the same time, '
                  'contexts restore the time exactly, push/pop restores cached value and time stamp.',
                  'symbolic execution (CrossHair+z3) of Dynamic/Time/numbergen with symbolic operation sequences against a (generator,time) table')
CLAIMED['C20'] = ('6/C20', 'Bounded-exhaustive check over finite pools chosen by symbolic indices (everything is realised by eval): three constructor '
                  'signature variants x parameter values (ints, finite and non-finite floats, strings over quote/backslash/newline alphabets, '
                  'empty and one-element containers, sub-dicts of a non-empty default, nested Parameterized changed/unchanged/named, explicit '
                  'names resembling auto-generated ones); the text of pprint() and of script_repr() is evaluated and the rebuilt object '
                  'compared parameter by parameter; the auto-name filter language is compared in z3 with the language of the name generator.',
                  'solver-enumerated pools through symbolic execution (CrossHair+z3) of pprint/script_repr with eval round trip; regex language comparison in z3')
