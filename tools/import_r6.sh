#!/bin/bash
# verify a round-6 sub-agent change in its scratch worktree /tmp/r6_<ID> and import it as seeded/<ID>-11
# usage: tools/import_r6.sh <ID>
ID=$1; W=/tmp/r6_$ID
[ -f $W/patch.diff ] || { echo "$ID missing"; exit 1; }
mkdir -p /root/scratch/r6_$ID; cp $W/patch.diff $W/demo.py $W/meta.txt /root/scratch/r6_$ID/ 2>/dev/null
O=/root/scratch/r6_$ID
cd $W && git checkout -q -- . && git clean -fdq -e patch.diff -e demo.py -e meta.txt -e PROPERTY.txt
clean=$(cd $O && PARAM_ROOT=$W PYTHONPATH=$W timeout 120 /venv/bin/python demo.py >/dev/null 2>&1; echo $?)
git apply $O/patch.diff || { echo "$ID APPLYFAIL"; exit 1; }
pat=$(cd $O && PARAM_ROOT=$W PYTHONPATH=$W timeout 120 /venv/bin/python demo.py >/dev/null 2>&1; echo $?)
tests=$(PYTHONPATH=$W /venv/bin/python -m pytest -q -p no:cacheprovider 2>&1 | tail -1 | sed 's/\x1b\[[0-9;]*m//g')
git checkout -q -- .
echo "$ID demo_clean=$clean demo_patched=$pat tests=[$tests]"
if [ "$clean" = "0" ] && [ "$pat" != "0" ] && echo "$tests" | grep -q "1185 passed"; then
  D=/verif/seeded/$ID-11; mkdir -p $D; cp $O/patch.diff $O/demo.py $D/; cp $O/meta.txt $D/NOTES.md
  python3 - $ID $D "$tests" <<'P'
import sys, json, subprocess
i, d, tests = sys.argv[1:4]
head = subprocess.run(['git','-C','/repo','log','--format=%h','-1'],capture_output=True,text=True).stdout.strip()
json.dump({"property": i, "round": 6, "origin": "independent sub-agent given only the property text and a scratch worktree of /repo HEAD (%s, i.e. with the fix: commits)" % head,
 "needs_to_manifest": open(d+'/NOTES.md').read().strip(),
 "verified": {"how": "scratch worktree: demo.py exit 0 clean; git apply patch.diff; demo.py non-zero; full test suite passes; worktree restored and removed",
  "demo_clean_exit": 0, "demo_patched_exit": "non-zero", "tests_with_patch": tests}}, open(d+'/meta.json','w'), indent=1)
P
  echo "  imported as $D"
else
  echo "  NOT imported"
fi
git -C /repo worktree remove --force $W; git -C /repo worktree prune; rm -rf $O
