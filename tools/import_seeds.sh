#!/bin/bash
# verify round-2 sub-agent changes in their scratch worktrees and import them as seeded/<ID>-<n+2>
# usage: tools/import_seeds.sh <ID>
ID=$1; W=/tmp/mut5/$ID/repo
for N in 1 2; do
  O=/tmp/mut5/$ID/out/$N
  [ -f $O/patch.diff ] || { echo "$ID/$N missing"; continue; }
  cd $W && git checkout -q -- .
  clean=$(cd $O && PARAM_ROOT=$W PYTHONPATH=$W /venv/bin/python demo.py >/dev/null 2>&1; echo $?)
  git apply $O/patch.diff || { echo "$ID/$N APPLYFAIL"; continue; }
  pat=$(cd $O && PARAM_ROOT=$W PYTHONPATH=$W /venv/bin/python demo.py >/dev/null 2>&1; echo $?)
  tests=$(/venv/bin/python -m pytest -q -p no:cacheprovider -x 2>&1 | tail -1 | sed 's/\x1b\[[0-9;]*m//g')
  git checkout -q -- .
  echo "$ID/$N demo_clean=$clean demo_patched=$pat tests=[$tests]"
  if [ "$clean" = "0" ] && [ "$pat" != "0" ] && echo "$tests" | grep -q "1185 passed"; then
    D=/verif/seeded/$ID-$((N+8)); mkdir -p $D; cp $O/patch.diff $O/demo.py $O/NOTES.md $D/
    python3 - $ID $D "$tests" <<'P'
import sys, json, subprocess
i, d, tests = sys.argv[1:4]
head = subprocess.run(['git','-C','/repo','log','--format=%h','-1'],capture_output=True,text=True).stdout.strip()
json.dump({"property": i, "round": 5, "origin": "independent sub-agent given only the property text and a scratch worktree of /repo HEAD (%s, i.e. with the fix: commits)" % head,
 "needs_to_manifest": "see NOTES.md (written by the sub-agent)",
 "verified": {"how": "scratch worktree: demo.py exit 0 clean; git apply patch.diff; demo.py non-zero; full test suite passes; worktree restored and removed",
  "demo_clean_exit": 0, "demo_patched_exit": "non-zero", "tests_with_patch": tests}}, open(d+'/meta.json','w'), indent=1)
P
    echo "  imported as $D"
  else
    echo "  NOT imported"
  fi
done
