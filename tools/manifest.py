#!/usr/bin/env python3
"""Regenerate /verif/MANIFEST.json from the table below (claimed checks) + properties.jsonl."""
import json, os
HERE = os.path.dirname(os.path.dirname(os.path.abspath(__file__)))
ids = [json.loads(l)['id'] for l in open(os.path.join(HERE, 'properties.jsonl'))]

SX = ("bounded symbolic execution of the real code: CrossHair proxies + z3 over the unmodified /repo sources, own "
      "exploration driver, shard-parallel; verdict = path tree exhausted with every leaf satisfying the reference-model "
      "assertions (or restricted to confirmed paths when the budget ends first); counterexamples replayed in a plain "
      "interpreter before being reported")
NOTE = ("Trusted: CPython 3.12, z3 5.1, CrossHair 0.0.110 (proxies, tracer, decision tree exhaustion flag), adaptations "
        "A1-A6 (DESIGN.md 2.2), the harness's reference model and stated bounds; nothing is claimed outside the bounds "
        "listed in the evidence file.")

CLAIMED = {
    # id: (design_ref, level text, technique)
}
exec(open(os.path.join(HERE, 'tools', 'claimed.py')).read())

checks = []
for i in ids:
    if i not in CLAIMED:
        continue
    ref, text, tech = CLAIMED[i]
    checks.append(dict(property_id=i, quick_cmd='./vcheck run %s --tier quick' % i,
                       thorough_cmd='./vcheck run %s --tier thorough' % i,
                       evidence_file='/verif/evidence/%s.json' % i,
                       replay_cmd_template='./vcheck replay {path}', engine='sx',
                       level_claimed=dict(category='other', text=text, design_ref=ref),
                       level_note=NOTE, technique=tech))
m = dict(version=1, setup_cmd='./vcheck setup',
         hooks=dict(guard='PARAM_VERIF', enable='no hooks: the real code is driven through its public API (PARAM_VERIF is unused)',
                    baseline_off_cmd='cd /repo && /venv/bin/python -m pytest -ra -q -p no:cacheprovider --timeout=900 --continue-on-collection-errors',
                    source_commits=[], add_only=True),
         engines=[dict(name='sx', path='/verif/sx', serves_properties=[c['property_id'] for c in checks],
                       kind_free_text='symbolic execution of the real Python code with CrossHair proxies and z3 (own driver, sharded), plus small AST->SMT kernels (smtk/) for regex/format languages')],
         checks=checks,
         notes='See DESIGN.md. Genuine defects repaired by fix: commits in /repo or listed in /verif/known_findings.jsonl.',
         not_applicable=[dict(property_id=i, reason=NOT_YET.get(i, 'check not built yet (planned, see DESIGN.md section 6)'))
                         for i in ids if i not in CLAIMED])
json.dump(m, open(os.path.join(HERE, 'MANIFEST.json'), 'w'), indent=1)
print('claimed:', [c['property_id'] for c in checks])
