#!/bin/bash
# usage: tools/mutcheck.sh <patch.diff> <property id> [tier]   -- apply a seeded change to /repo, run the check, undo
set -u
P="$(realpath "$1")"; ID="$2"; TIER="${3:-quick}"
cd /repo || exit 9
if [ -n "$(git status --porcelain --untracked-files=no)" ]; then echo "repo dirty"; exit 9; fi
if ! git apply "$P" 2>/dev/null; then
  if ! patch -p1 -s --fuzz=3 < "$P"; then echo "PATCH DOES NOT APPLY"; git checkout -- .; exit 9; fi
fi
cd /verif && timeout 3000 ./vcheck run "$ID" --tier "$TIER" 2>&1 | grep -v "^  label" | tail -${LINES_OUT:-6}
rc=${PIPESTATUS[0]}
cd /repo && git checkout -- . && find . -name "*.orig" -delete -o -name "*.rej" -delete
echo "mutcheck exit=$rc"
