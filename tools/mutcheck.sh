#!/bin/bash
# usage: tools/mutcheck.sh <patch.diff> <property id> [tier]
# Applies a seeded change to a tree, runs the check against it, undoes it.
# Default tree: /repo itself.  With MUT_SCRATCH=1 a scratch worktree of /repo HEAD (under /root/scratch) is used instead,
# so that other runs against /repo are not disturbed; the worktree is removed afterwards.
set -u
P="$(realpath "$1")"; ID="$2"; TIER="${3:-quick}"
if [ "${MUT_SCRATCH:-0}" = "1" ]; then
  W=/root/scratch/mut_$$; mkdir -p /root/scratch
  git -C /repo worktree add -q --detach "$W" HEAD || exit 9
  T="$W"
else
  T=/repo
  if [ -n "$(git -C /repo status --porcelain --untracked-files=no)" ]; then echo "repo dirty"; exit 9; fi
fi
cd "$T" || exit 9
ok=1
if ! git apply "$P" 2>/dev/null; then
  if ! patch -p1 -s --fuzz=3 < "$P"; then echo "PATCH DOES NOT APPLY"; ok=0; fi
fi
rc=9
if [ $ok = 1 ]; then
  cd /verif && VERIF_ONLY="${ONLY:-}" VERIF_REPO="$T" VERIF_EVIDENCE_SUFFIX="${MUT_SCRATCH:+.mut}" timeout 3000 ./vcheck run "$ID" --tier "$TIER" 2>&1 | grep -v "^  label" | tail -${LINES_OUT:-6}
  rc=${PIPESTATUS[0]}
fi
if [ "${MUT_SCRATCH:-0}" = "1" ]; then
  git -C /repo worktree remove --force "$W"; git -C /repo worktree prune
else
  cd /repo && git checkout -- . && find . \( -name "*.orig" -o -name "*.rej" \) -delete
fi
echo "mutcheck exit=$rc"
