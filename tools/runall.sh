#!/bin/bash
# run every registered check once on the current tree: tools/runall.sh [tier]
cd /verif
TIER="${1:-quick}"
for i in $(seq -w 1 20); do
  id=C$i
  t0=$(date +%s)
  out=$(./vcheck run $id --tier $TIER 2>&1)
  rc=$?
  t1=$(date +%s)
  echo "$id rc=$rc wall=$((t1-t0))s $(echo "$out" | grep -c '^KNOWN-FINDING') known; $(echo "$out" | grep -E '^(VIOLATION|HARNESS-ERROR)' | head -2 | cut -c1-200)"
  echo "$out" | tail -1 | cut -c1-250
done
