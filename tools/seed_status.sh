#!/bin/bash
# tools/seed_status.sh <seed id>: does the seeded change still break its demo on the current /repo HEAD?
s=$1; d=/verif/seeded/$s; p=$d/patch.diff; [ -f $d/patch_current.diff ] && p=$d/patch_current.diff
W=/root/scratch/ss_$$; git -C /repo worktree add -q --detach $W HEAD || exit 9
cd $W
if git apply $p 2>/dev/null || patch -p1 -s --fuzz=3 < $p >/dev/null 2>&1; then
  (cd $d && PYTHONPATH=$W PARAM_ROOT=$W timeout 120 /venv/bin/python demo.py >/dev/null 2>&1); rc=$?
  echo "$s demo_with_patch_exit=$rc $([ $rc = 0 ] && echo '(no longer breaks the property: neutralised by a later repair)')"
else
  echo "$s patch does not apply"
fi
cd /; git -C /repo worktree remove --force $W
