#!/bin/bash
# run every seeded change against its property's check; writes seeded/MATRIX.txt
cd /verif
TIER="${1:-quick}"
OUT=seeded/MATRIX_$TIER.txt
: > $OUT
for d in seeded/C*/; do
  id=$(basename $d); prop=${id%-*}
  patch=$d/patch.diff; [ -f $d/patch_current.diff ] && patch=$d/patch_current.diff
  res=$(tools/mutcheck.sh $patch $prop $TIER 2>&1 | tail -1)
  labels=$(python3 -c "
import json
try:
    e=json.load(open('/verif/evidence/$prop.json')); print(','.join(sorted({v['label'] for v in e['coverage']['violations_reported']})))
except Exception as ex: print('?')")
  echo "$id $res labels=$labels" | tee -a $OUT
done
# restore clean evidence
for p in $(ls seeded | grep '^C' | sed 's/-.*//' | sort -u); do :; done
