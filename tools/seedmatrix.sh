#!/bin/bash
# run seeded changes against their property's check; usage: tools/seedmatrix.sh [tier] [glob]   (default: quick, all)
cd /verif
TIER="${1:-quick}"; GLOB="${2:-C*}"
OUT=seeded/MATRIX_${TIER}_$(echo "$GLOB" | tr -c 'A-Za-z0-9\n' '_').txt
: > $OUT
for d in seeded/$GLOB/; do
  id=$(basename $d); prop=${id%-*}
  patch=$d/patch.diff; [ -f $d/patch_current.diff ] && patch=$d/patch_current.diff
  res=$(VERIF_STOP_AT_FIRST=1 MUT_SCRATCH=1 tools/mutcheck.sh $patch $prop $TIER 2>&1 | tail -1)
  labels=$(python3 -c "
import json
try:
    e=json.load(open('/verif/evidence/$prop.mut.json')); print(','.join(sorted({v['label'] for v in e['coverage']['violations_reported']})))
except Exception as ex: print('?')")
  echo "$id $res labels=$labels" | tee -a $OUT
done
