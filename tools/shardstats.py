#!/usr/bin/env python3
"""tools/shardstats.py <ID> [suffix]: per-shard wall time / paths of the last run (from the evidence file)"""
import json, sys
e = json.load(open('/verif/evidence/%s%s.json' % (sys.argv[1], sys.argv[2] if len(sys.argv) > 2 else '')))
sh = e['coverage']['shards']
tot = sum(s.get('wall_s', 0) for s in sh)
print('shards', len(sh), 'sum wall', round(tot), 'avg', round(tot / max(1, len(sh)), 1), 'exhausted', sum(1 for s in sh if s.get('exhausted')))
import collections
fam = collections.defaultdict(lambda: [0, 0.0, 0, 0])
for s in sh:
    k = s['name'].split('_')[0]
    fam[k][0] += 1; fam[k][1] += s.get('wall_s', 0); fam[k][2] += s.get('paths', 0); fam[k][3] += 1 if s.get('exhausted') else 0
for k, v in sorted(fam.items(), key=lambda kv: -kv[1][1]):
    print('  %-12s n=%3d wall=%7.1f paths=%7d exhausted=%d' % (k, v[0], v[1], v[2], v[3]))
