#!/usr/bin/env python3
"""Regenerate the scheduling hints costs/<ID>_<tier>.json from the evidence files of the last runs."""
import json, os, glob
HERE = os.path.dirname(os.path.dirname(os.path.abspath(__file__)))
os.makedirs(os.path.join(HERE, 'costs'), exist_ok=True)
for f in glob.glob(os.path.join(HERE, 'evidence', 'C*.json')):
    e = json.load(open(f))
    if e.get('violations') or e['coverage'].get('harness_errors'):
        continue
    costs = {s['name']: round(s['wall_s'], 1) for s in e['coverage']['shards']}
    json.dump(costs, open(os.path.join(HERE, 'costs', '%s_%s.json' % (e['property_id'], e['tier'])), 'w'), indent=0, sort_keys=True)
print('ok')
